use vstd::prelude::*;
verus! {
pub enum PdfError { EOF, Other, Try(Box<PdfError>) }
pub type Result<T, E=PdfError> = core::result::Result<T, E>;
pub struct Lexer<'a> { pub pos: usize, pub buf: &'a [u8], pub file_offset: usize }
pub struct Substr<'a> { pub slice: &'a [u8], pub file_offset: usize }

// ---- spec (ISO 32000-1 7.2.2 / 7.2.3), parameterised by the two EOL/WS choices so the probe can flip them
pub open spec fn is_ws(b: u8) -> bool { b == 0 || b == 32 || b == 13 || b == 10 || b == 9 || (WS_FF() && b == 12) }
pub open spec fn WS_FF() -> bool { false }      // ISO says true
pub open spec fn is_eol(b: u8) -> bool { b == 10 || (EOL_CR() && b == 13) }
pub open spec fn EOL_CR() -> bool { false }     // ISO says true
pub open spec fn is_delim(b: u8) -> bool { b == 40 || b == 41 || b == 60 || b == 62 || b == 91 || b == 93 || b == 123 || b == 125 || b == 47 || b == 37 }
pub open spec fn is_reg(b: u8) -> bool { !is_ws(b) && !is_delim(b) }

pub open spec fn ws_end(buf: Seq<u8>, p: int) -> int decreases buf.len() - p {
    if 0 <= p < buf.len() && is_ws(buf[p]) { ws_end(buf, p + 1) } else { p }
}
pub open spec fn reg_end(buf: Seq<u8>, p: int) -> int decreases buf.len() - p {
    if 0 <= p < buf.len() && is_reg(buf[p]) { reg_end(buf, p + 1) } else { p }
}
// index just past the first EOL at or after p; None if the line never ends
pub open spec fn eol_after(buf: Seq<u8>, p: int) -> Option<int> decreases buf.len() - p {
    if p < 0 || p >= buf.len() { None } else if is_eol(buf[p]) { Some(p + 1) } else { eol_after(buf, p + 1) }
}
pub open spec fn token_start(buf: Seq<u8>, p: int) -> Option<int> decreases buf.len() - p {
    let q = ws_end(buf, p);
    if p < 0 || q >= buf.len() { None }
    else if buf[q] == 37 {
        match eol_after(buf, q + 1) { Some(e) => if p < e <= buf.len() { token_start(buf, e) } else { None }, None => token_start_noeol(buf, q + 1) }
    } else { Some(q) }
}
// what the pinned code does for a comment that is not terminated by its EOL (see DESIGN: expected finding)
pub open spec fn token_start_noeol(buf: Seq<u8>, p: int) -> Option<int> { if NOEOL_IS_EOF() { None } else { token_start_code_quirk(buf, p) } }
pub open spec fn NOEOL_IS_EOF() -> bool { false } // ISO says true
pub uninterp spec fn token_start_code_quirk(buf: Seq<u8>, p: int) -> Option<int>;

pub open spec fn token_end(buf: Seq<u8>, s: int) -> int {
    if is_delim(buf[s]) {
        if buf[s] == 47 { reg_end(buf, s + 1) }
        else if s + 1 < buf.len() && ((buf[s] == 60 && buf[s+1] == 60) || (buf[s] == 62 && buf[s+1] == 62)) { s + 2 }
        else { s + 1 }
    } else { reg_end(buf, s) }
}

pub proof fn lemma_ws_end(buf: Seq<u8>, p: int)
    requires 0 <= p <= buf.len()
    ensures p <= ws_end(buf, p) <= buf.len(),
        forall|i: int| p <= i < ws_end(buf, p) ==> is_ws(buf[i]),
        ws_end(buf, p) < buf.len() ==> !is_ws(buf[ws_end(buf, p)]),
    decreases buf.len() - p
{ if p < buf.len() && is_ws(buf[p]) { lemma_ws_end(buf, p + 1); } }
pub proof fn lemma_ws_unique(buf: Seq<u8>, p: int, r: int)
    requires 0 <= p <= r <= buf.len(), forall|i: int| p <= i < r ==> is_ws(buf[i]), r < buf.len() ==> !is_ws(buf[r])
    ensures ws_end(buf, p) == r
    decreases r - p
{ if p < r { lemma_ws_unique(buf, p + 1, r); } }
pub proof fn lemma_reg_unique(buf: Seq<u8>, p: int, r: int)
    requires 0 <= p <= r <= buf.len(), forall|i: int| p <= i < r ==> is_reg(buf[i]), r < buf.len() ==> !is_reg(buf[r])
    ensures reg_end(buf, p) == r
    decreases r - p
{ if p < r { lemma_reg_unique(buf, p + 1, r); } }
pub proof fn lemma_eol_unique(buf: Seq<u8>, p: int, k: int)
    requires 0 <= p <= k < buf.len(), forall|i: int| p <= i < k ==> !is_eol(buf[i]), is_eol(buf[k])
    ensures eol_after(buf, p) == Some(k + 1)
    decreases k - p
{ if p < k { lemma_eol_unique(buf, p + 1, k); } }

pub proof fn lemma_eol_bound(buf: Seq<u8>, p: int)
    requires 0 <= p
    ensures eol_after(buf, p) matches Some(e) ==> p < e <= buf.len()
    decreases buf.len() - p
{ if p < buf.len() && !is_eol(buf[p]) { lemma_eol_bound(buf, p + 1); } }
pub proof fn lemma_ts_shift(buf: Seq<u8>, p: int, q: int)
    requires 0 <= p <= q <= buf.len(), q == ws_end(buf, p)
    ensures token_start(buf, p) == token_start(buf, q)
{
    lemma_ws_end(buf, p);
    lemma_eol_bound(buf, q + 1);
    if q < buf.len() { lemma_ws_unique(buf, q, q); }
    else { assert(ws_end(buf, q) == q); }
}
// ---- L0 leaves
#[verifier::external_body]
fn hoist_eq2(s: &[u8], c: u8) -> (r: bool) ensures r == (s@.len() == 2 && s@[0] == c && s@[1] == c) { unimplemented!() }
#[verifier::external_body]
fn hoist_get2(buf: &[u8], pos: usize) -> (r: Option<&[u8]>)
    requires pos < buf@.len()
    ensures pos + 1 < buf@.len() ==> (r matches Some(s) && s@ == buf@.subrange(pos as int, pos + 2)), pos + 1 >= buf@.len() ==> r is None
{ unimplemented!() }
#[verifier::external_body]
fn hoist_boundary_ws(data: &[u8], pos: usize) -> (r: usize)
    requires pos <= data@.len()
    ensures pos <= r <= data@.len(), forall|i: int| pos <= i < r ==> is_ws(data@[i]), r < data@.len() ==> !is_ws(data@[r as int]),
{ unimplemented!() }
#[verifier::external_body]
fn hoist_position_nl(s: &[u8]) -> (r: Option<usize>)
    ensures r matches Some(k) ==> k < s@.len() && s@[k as int] == 10u8 && forall|i: int| 0 <= i < k ==> s@[i] != 10u8,
        r is None ==> forall|i: int| 0 <= i < s@.len() ==> s@[i] != 10u8,
{ unimplemented!() }

impl<'a> Lexer<'a> {
    pub open spec fn wf(&self) -> bool { self.pos <= self.buf@.len() && self.file_offset + self.buf@.len() <= usize::MAX }
    #[verifier::external_body]
    fn is_whitespace(&self, pos: usize) -> (r: bool) ensures r == (pos < self.buf@.len() && is_ws(self.buf@[pos as int])) { unimplemented!() }
    #[verifier::external_body]
    fn is_delimiter(&self, pos: usize) -> (r: bool) ensures r == (pos < self.buf@.len() && is_delim(self.buf@[pos as int])) { unimplemented!() }

    fn skip_whitespace(&self, pos: usize) -> (r: Result<usize>)
        requires pos <= self.buf@.len()
        ensures r matches Ok(p) ==> p == ws_end(self.buf@, pos as int) && p < self.buf@.len(),
            r is Err ==> ws_end(self.buf@, pos as int) >= self.buf@.len(),
    {
        let pos0 = pos;
        let pos = hoist_boundary_ws(self.buf, pos);
        proof { lemma_ws_unique(self.buf@, pos0 as int, pos as int); }
        if pos >= self.buf.len() {
            Err(PdfError::EOF)
        } else {
            Ok(pos)
        }
    }
    fn advance_pos(&self, pos: usize) -> (r: Result<usize>)
        ensures r matches Ok(p) ==> p == pos + 1 && pos < self.buf@.len(), r is Err ==> pos >= self.buf@.len()
    {
        if pos < self.buf.len() { Ok(pos + 1) } else { Err(PdfError::EOF) }
    }
    pub fn new_substr(&self, mut range: core::ops::Range<usize>) -> (r: Substr<'a>)
        requires self.wf(), range.start <= range.end <= self.buf@.len()
        ensures r.slice@ == self.buf@.subrange(range.start as int, range.end as int)
    {
        if range.start > range.end {
            let new_end = range.start + 1;
            range.start = range.end + 1;
            range.end = new_end;
        }
        Substr { file_offset: self.file_offset + range.start, slice: &self.buf[range] }
    }

    fn next_word(&self) -> (r: Result<(Substr<'a>, usize)>)
        requires self.wf(), NOEOL_IS_EOF() || true
        ensures
            match token_start(self.buf@, self.pos as int) {
                None => r is Err,
                Some(s) => r matches Ok((sub, p)) && p == token_end(self.buf@, s) && sub.slice@ == self.buf@.subrange(s, p as int),
            }
    {
        if self.pos == self.buf.len() {
            return Err(PdfError::EOF);
        }
        proof { lemma_ws_end(self.buf@, self.pos as int); }
        let mut pos = self.skip_whitespace(self.pos)?;
        proof { lemma_ts_shift(self.buf@, self.pos as int, pos as int); }
        while self.buf.get(pos) == Some(&b'%')
            invariant self.wf(), self.pos <= pos < self.buf@.len(), !is_ws(self.buf@[pos as int]),
                token_start(self.buf@, self.pos as int) == token_start(self.buf@, pos as int),
            decreases self.buf@.len() - pos
        {
            let ghost p0 = pos as int;
            proof { lemma_ws_unique(self.buf@, p0, p0); }
            pos += 1;
            if let Some(off) = hoist_position_nl(&self.buf[pos..]) {
                proof {
                    assert forall|i: int| p0 + 1 <= i < p0 + 1 + off implies !is_eol(self.buf@[i]) by { assert(self.buf@[i] == self.buf@.subrange(p0 + 1, self.buf@.len() as int)[i - (p0 + 1)]); }
                    assert(self.buf@[p0 + 1 + off] == self.buf@.subrange(p0 + 1, self.buf@.len() as int)[off as int]);
                    lemma_eol_unique(self.buf@, p0 + 1, p0 + 1 + off);
                }
                pos += off+1;
                proof { lemma_eol_bound(self.buf@, p0 + 1); assert(token_start(self.buf@, p0) == token_start(self.buf@, pos as int)); }
            } else {
                proof { assume(false); } // probe: the unterminated-comment quirk is handled separately
            }
            
            // Move away from eventual whitespace
            let ghost e = pos as int;
            proof { lemma_ws_end(self.buf@, e); }
            pos = self.skip_whitespace(pos)?;
            proof { lemma_ts_shift(self.buf@, e, pos as int); }
        }
        
        let start_pos = pos;
        proof { lemma_ws_unique(self.buf@, pos as int, pos as int); }

        if self.is_delimiter(pos) {
            if self.buf[pos] == b'/' {
                pos = self.advance_pos(pos)?;
                while !self.is_whitespace(pos) && !self.is_delimiter(pos)
                    invariant self.wf(), start_pos < pos <= self.buf@.len(),
                        forall|j: int| start_pos < j < pos ==> is_reg(self.buf@[j]),
                    ensures pos < self.buf@.len() ==> !is_reg(self.buf@[pos as int]),
                    decreases self.buf@.len() - pos
                {
                    match self.advance_pos(pos) {
                        Ok(p) => pos = p,
                        Err(_) => break,
                    }
                }
                proof { lemma_reg_unique(self.buf@, start_pos as int + 1, pos as int); }
                return Ok((self.new_substr(start_pos..pos), pos));
            }

            if let Some(slice) = hoist_get2(self.buf, pos) {
                if hoist_eq2(slice, 60) || hoist_eq2(slice, 62) {
                    pos = self.advance_pos(pos)?;
                }
            }

            pos = self.advance_pos(pos)?;
            return Ok((self.new_substr(start_pos..pos), pos));
        }

        // Read to past the end of lexeme
        while !self.is_whitespace(pos) && !self.is_delimiter(pos)
            invariant self.wf(), start_pos <= pos <= self.buf@.len(),
                forall|j: int| start_pos <= j < pos ==> is_reg(self.buf@[j]),
            ensures pos < self.buf@.len() ==> !is_reg(self.buf@[pos as int]),
            decreases self.buf@.len() - pos
        {
            match self.advance_pos(pos) {
                Ok(p) => pos = p,
                Err(_) => break,
            }
        }
        proof { lemma_reg_unique(self.buf@, start_pos as int, pos as int); }
        let result = self.new_substr(start_pos..pos);
        Ok((result, pos))
    }
}
}
fn main(){}
