use vstd::prelude::*;
macro_rules! bail { ($($t:tt)*) => { return Err(PdfError::Other) } }
verus! {
pub enum PdfError { Other, PageOutOfBounds { page_nr: u32, max: u32 } }
pub type Result<T, E=PdfError> = core::result::Result<T, E>;

#[derive(Clone, Copy)]
pub struct Ref { pub id: u64 }
pub struct Page { pub id: u64 }
pub struct PageTree { pub kids: Vec<Ref>, pub count: u32 }
pub enum PagesNode { Tree(PageTree), Leaf(Page) }
pub struct RcRef { pub key: Ref, pub node: PagesNode }
pub struct PageRc(pub RcRef);
pub struct World { pub nodes: Map<u64, PagesNode> }

pub open spec fn kl(w: World, kids: Seq<Ref>, d: nat) -> Seq<u64>
    decreases d, kids.len()
{
    if kids.len() == 0 { Seq::empty() } else {
        let k = kids[0];
        let head = match w.nodes[k.id] {
            PagesNode::Leaf(_) => seq![k.id],
            PagesNode::Tree(t) => if d <= 1 { Seq::empty() } else { kl(w, t.kids@, (d - 1) as nat) },
        };
        head + kl(w, kids.skip(1), d)
    }
}
pub open spec fn wfk(w: World, kids: Seq<Ref>, d: nat) -> bool
    decreases d, kids.len()
{
    kids.len() == 0 || (
        w.nodes.dom().contains(kids[0].id)
        && (match w.nodes[kids[0].id] {
            PagesNode::Leaf(_) => true,
            PagesNode::Tree(t) => d >= 2 && t.count == kl(w, t.kids@, (d - 1) as nat).len() && wfk(w, t.kids@, (d - 1) as nat),
        })
        && wfk(w, kids.skip(1), d))
}
pub open spec fn node_leaves(w: World, k: Ref, d: nat) -> Seq<u64> {
    match w.nodes[k.id] {
        PagesNode::Leaf(_) => seq![k.id],
        PagesNode::Tree(t) => if d <= 1 { Seq::empty() } else { kl(w, t.kids@, (d - 1) as nat) },
    }
}
// leaves of the first i kids
pub proof fn lemma_prefix(w: World, kids: Seq<Ref>, d: nat, i: int)
    requires 0 <= i < kids.len()
    ensures kl(w, kids.take(i + 1), d) == kl(w, kids.take(i), d) + node_leaves(w, kids[i], d),
    decreases i
{
    if i == 0 {
        assert(kids.take(1).skip(1) =~= Seq::<Ref>::empty());
        assert(kids.take(0) =~= Seq::<Ref>::empty());
        assert(kl(w, kids.take(1), d) =~= node_leaves(w, kids[0], d) + kl(w, Seq::<Ref>::empty(), d));
    } else {
        let a = kids.take(i + 1);
        let b = kids.take(i);
        assert(a.skip(1) =~= kids.skip(1).take(i));
        assert(b.skip(1) =~= kids.skip(1).take(i - 1));
        lemma_prefix(w, kids.skip(1), d, i - 1);
        assert(a[0] == kids[0] && b[0] == kids[0]);
        assert(kids.skip(1)[i - 1] == kids[i]);
        assert(kl(w, a, d) =~= node_leaves(w, kids[0], d) + kl(w, a.skip(1), d));
        assert(kl(w, b, d) =~= node_leaves(w, kids[0], d) + kl(w, b.skip(1), d));
    }
}
pub proof fn lemma_wf_index(w: World, kids: Seq<Ref>, d: nat, i: int)
    requires 0 <= i < kids.len(), wfk(w, kids, d)
    ensures w.nodes.dom().contains(kids[i].id),
        match w.nodes[kids[i].id] {
            PagesNode::Leaf(_) => true,
            PagesNode::Tree(t) => d >= 2 && t.count == kl(w, t.kids@, (d - 1) as nat).len() && wfk(w, t.kids@, (d - 1) as nat),
        }
    decreases i
{
    if i > 0 { lemma_wf_index(w, kids.skip(1), d, i - 1); }
}

pub trait Resolve {
    spec fn world(&self) -> World;
    fn get(&self, r: Ref) -> (res: Result<RcRef>)
        ensures res matches Ok(n) ==> self.world().nodes.dom().contains(r.id) && n.node == self.world().nodes[r.id] && n.key == r,
            self.world().nodes.dom().contains(r.id) ==> res is Ok;
}
impl core::ops::Deref for RcRef {
    type Target = PagesNode;
    fn deref(&self) -> (r: &PagesNode) ensures *r == self.node { &self.node }
}

impl PageTree {
    #[verifier::loop_isolation(false)]
    fn page_limited(&self, resolve: &impl Resolve, page_nr: u32, depth: usize) -> (r: Result<PageRc>)
        requires
            wfk(resolve.world(), self.kids@, depth as nat),
            self.count == kl(resolve.world(), self.kids@, depth as nat).len(),
        ensures
            depth >= 1 && page_nr < self.count ==> (r matches Ok(p) && p.0.key.id == kl(resolve.world(), self.kids@, depth as nat)[page_nr as int]),
            depth >= 1 && page_nr >= self.count ==> r matches Err(PdfError::PageOutOfBounds{..}),
        decreases depth
    {
        if depth == 0 {
            bail!("page tree depth exeeded");
        }
        let mut pos = 0;
        let ghost w = resolve.world();
        let ghost d = depth as nat;
        proof { assert(self.kids@.take(0) =~= Seq::<Ref>::empty()); assert(self.kids@.take(self.kids@.len() as int) =~= self.kids@); }
        for kid_ref in it: &self.kids
            invariant
                pos as int == kl(w, self.kids@.take(it.index@ as int), d).len(),
                pos <= page_nr,
                it.index@ <= self.kids@.len(),
        { let kid = *kid_ref;
            let ghost i = it.index@ as int;
            proof {
                lemma_prefix(w, self.kids@, d, i);
                lemma_wf_index(w, self.kids@, d, i);
                assert(kid == self.kids@[i]);
                // total count bounds the prefix
                lemma_take_le(w, self.kids@, d, i + 1);
            }
            let node = resolve.get(kid)?;
            match *node {
                PagesNode::Tree(ref tree) => {
                    if (pos .. pos + tree.count).contains(&page_nr) {
                        return tree.page_limited(resolve, page_nr - pos, depth - 1);
                    }
                    pos += tree.count;
                }
                PagesNode::Leaf(ref _page) => {
                    if pos == page_nr {
                        return Ok(PageRc(node));
                    }
                    pos += 1;
                }
            }
        }
        Err(PdfError::PageOutOfBounds {page_nr, max: pos})
    }
}
pub proof fn lemma_take_le(w: World, kids: Seq<Ref>, d: nat, i: int)
    requires 0 <= i <= kids.len()
    ensures kl(w, kids.take(i), d).len() <= kl(w, kids, d).len(),
        // and the prefix is a prefix
        forall|j: int| 0 <= j < kl(w, kids.take(i), d).len() ==> kl(w, kids.take(i), d)[j] == kl(w, kids, d)[j],
    decreases kids.len() - i
{
    if i == kids.len() { assert(kids.take(i) =~= kids); }
    else { lemma_prefix(w, kids, d, i); lemma_take_le(w, kids, d, i + 1); }
}
}
fn main(){}
