use vstd::prelude::*;
macro_rules! t { ($e:expr $(,$c:expr)*) => { match $e { Ok(v) => v, Err(e) => { return Err(PdfError::Try(Box::new(e))) } } }; }
verus! {
pub enum PdfError { EOF, Other, Try(Box<PdfError>) }
pub type Result<T, E=PdfError> = core::result::Result<T, E>;
pub struct Lexer<'a> { pub pos: usize, pub buf: &'a [u8], pub file_offset: usize }
pub struct Substr<'a> { pub slice: &'a [u8], pub file_offset: usize }

pub open spec fn is_ws(b: u8) -> bool { b == 0 || b == 32 || b == 13 || b == 10 || b == 9 }
pub open spec fn is_delim(b: u8) -> bool { b == 40 || b == 41 || b == 60 || b == 62 || b == 91 || b == 93 || b == 123 || b == 125 || b == 47 || b == 37 }

#[verifier::external_body]
fn hoist_boundary_ws(data: &[u8], pos: usize) -> (r: usize)
    requires pos <= data@.len()
    ensures pos <= r <= data@.len(), forall|i: int| pos <= i < r ==> is_ws(data@[i]), r < data@.len() ==> !is_ws(data@[r as int]),
{ unimplemented!() }
#[verifier::external_body]
fn hoist_position_nl(s: &[u8]) -> (r: Option<usize>)
    ensures r matches Some(k) ==> k < s@.len() && s@[k as int] == 10u8,
{ unimplemented!() }

impl<'a> Lexer<'a> {
    pub open spec fn wf(&self) -> bool { self.pos <= self.buf@.len() && self.file_offset + self.buf@.len() <= usize::MAX }

    #[verifier::external_body]
    fn is_whitespace(&self, pos: usize) -> (r: bool)
        ensures r == (pos < self.buf@.len() && is_ws(self.buf@[pos as int]))
    { unimplemented!() }
    #[verifier::external_body]
    fn is_delimiter(&self, pos: usize) -> (r: bool)
        ensures r == (pos < self.buf@.len() && is_delim(self.buf@[pos as int]))
    { unimplemented!() }

    fn skip_whitespace(&self, pos: usize) -> (r: Result<usize>)
        requires pos <= self.buf@.len()
        ensures r matches Ok(p) ==> pos <= p < self.buf@.len() && !is_ws(self.buf@[p as int]),
    {
        // Move away from eventual whitespace
        let pos = hoist_boundary_ws(self.buf, pos);
        if pos >= self.buf.len() {
            Err(PdfError::EOF)
        } else {
            Ok(pos)
        }
    }
    fn advance_pos(&self, pos: usize) -> (r: Result<usize>)
        ensures r matches Ok(p) ==> p == pos + 1 && pos < self.buf@.len(),
                r is Err ==> pos >= self.buf@.len()
    {
        if pos < self.buf.len() {
            Ok(pos + 1)
        } else {
            Err(PdfError::EOF)
        }
    }
    pub fn new_substr(&self, mut range: core::ops::Range<usize>) -> (r: Substr<'a>)
        requires self.wf(), range.start <= range.end <= self.buf@.len()
        ensures r.slice@ == self.buf@.subrange(range.start as int, range.end as int)
    {
        if range.start > range.end {
            let new_end = range.start + 1;
            range.start = range.end + 1;
            range.end = new_end;
        }
        Substr {
            file_offset: self.file_offset + range.start,
            slice: &self.buf[range],
        }
    }

    fn next_word(&self) -> (r: Result<(Substr<'a>, usize)>)
        requires self.wf()
        ensures r matches Ok((s, p)) ==> self.pos <= p <= self.buf@.len() && s.slice@.len() <= p - self.pos
    {
        if self.pos == self.buf.len() {
            return Err(PdfError::EOF);
        }
        let mut pos = self.skip_whitespace(self.pos)?;
        while self.buf.get(pos) == Some(&b'%')
            invariant self.wf(), self.pos <= pos < self.buf@.len()
            decreases self.buf@.len() - pos
        {
            pos += 1;
            if let Some(off) = hoist_position_nl(&self.buf[pos..]) {
                pos += off+1;
            }
            
            // Move away from eventual whitespace
            pos = self.skip_whitespace(pos)?;
        }
        
        let start_pos = pos;

        if self.is_delimiter(pos) {
            if self.buf[pos] == b'/' {
                pos = self.advance_pos(pos)?;
                while !self.is_whitespace(pos) && !self.is_delimiter(pos)
                    invariant self.wf(), start_pos < pos <= self.buf@.len()
                    decreases self.buf@.len() - pos
                {
                    match self.advance_pos(pos) {
                        Ok(p) => pos = p,
                        Err(_) => break,
                    }
                }
                return Ok((self.new_substr(start_pos..pos), pos));
            }

            if let Some(slice) = self.buf.get(pos..=pos+1) {
                if slice == b"<<" || slice == b">>" {
                    pos = self.advance_pos(pos)?;
                }
            }

            pos = self.advance_pos(pos)?;
            return Ok((self.new_substr(start_pos..pos), pos));
        }

        // Read to past the end of lexeme
        while !self.is_whitespace(pos) && !self.is_delimiter(pos)
            invariant self.wf(), start_pos <= pos <= self.buf@.len()
            decreases self.buf@.len() - pos
        {
            match self.advance_pos(pos) {
                Ok(p) => pos = p,
                Err(_) => break,
            }
        }
        let result = self.new_substr(start_pos..pos);
        Ok((result, pos))
    }
}
}
fn main(){}
