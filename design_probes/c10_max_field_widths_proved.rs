use vstd::prelude::*;
macro_rules! bail { ($($t:tt)*) => { return Err(PdfError::Other) } }
verus! {
global size_of usize == 8;
pub enum PdfError { Other }
pub type Result<T, E=PdfError> = core::result::Result<T, E>;
pub type ObjNr = u64; pub type GenNr = u64;
#[derive(Copy, Clone)]
pub enum XRef { Free { next_obj_nr: ObjNr, gen_nr: GenNr }, Raw { pos: usize, gen_nr: GenNr }, Stream { stream_id: ObjNr, index: usize }, Promised, Invalid }
pub struct XRefTable { pub entries: Vec<XRef> }

pub open spec fn pow256(k: nat) -> nat decreases k { if k == 0 { 1 } else { 256 * pow256((k - 1) as nat) } }
pub open spec fn be_val(s: Seq<u8>) -> nat decreases s.len() { if s.len() == 0 { 0 } else { be_val(s.drop_last()) * 256 + s.last() as nat } }
pub open spec fn fields(e: XRef) -> (u8, u64, u64) { match e {
    XRef::Free { next_obj_nr, gen_nr } => (0u8, next_obj_nr, gen_nr),
    XRef::Raw { pos, gen_nr } => (1u8, pos as u64, gen_nr),
    XRef::Stream { stream_id, index } => (2u8, stream_id, index as u64),
    _ => (3u8, 0u64, 0u64) } }
pub open spec fn usable(e: XRef) -> bool { e is Free || e is Raw || e is Stream }

// L0 (std): the last w bytes of the big-endian representation; exact when n < 256^w
#[verifier::external_body]
fn hoist_be_tail(data: &mut Vec<u8>, n: u64, w: usize)
    requires 1 <= w <= 8
    ensures final(data)@.len() == old(data)@.len() + w,
        final(data)@.subrange(0, old(data)@.len() as int) == old(data)@,
        (n as nat) < pow256(w as nat) ==> be_val(final(data)@.subrange(old(data)@.len() as int, final(data)@.len() as int)) == n,
{ data.extend_from_slice(&n.to_be_bytes()[8 - w ..]); }
#[verifier::external_body]
fn byte_len(n: u64) -> (r: usize) ensures 1 <= r <= 8, (n as nat) < pow256(r as nat) { todo!() }
#[verifier::external_body]
proof fn lemma_pow256_mono(a: nat, b: nat) requires a <= b ensures pow256(a) <= pow256(b) {}

impl XRefTable {
    pub fn max_field_widths(&self) -> (r: (u64, u64))
        ensures forall|i: int| 0 <= i < self.entries@.len() && usable(self.entries@[i]) ==> fields(#[trigger] self.entries@[i]).1 <= r.0 && fields(self.entries@[i]).2 <= r.1
    {
        let mut max_a = 0;
        let mut max_b = 0;
        let mut __i = 0;
        while __i < self.entries.len()
            invariant __i <= self.entries@.len(), forall|i: int| 0 <= i < __i && usable(self.entries@[i]) ==> fields(#[trigger] self.entries@[i]).1 <= max_a && fields(self.entries@[i]).2 <= max_b
            decreases self.entries@.len() - __i
        { let e = self.entries[__i]; __i += 1;
            let (a, b) = match e {
                XRef::Raw { pos, gen_nr } => (pos as u64, gen_nr),
                XRef::Free { next_obj_nr, gen_nr } => (next_obj_nr, gen_nr),
                XRef::Stream { stream_id, index } => (stream_id, index as u64),
                _ => continue
            };
            max_a = if max_a >= a { max_a } else { a };
            max_b = if max_b >= b { max_b } else { b };
        }
        (max_a, max_b)
    }
}
}
fn main(){}
