use vstd::prelude::*;
verus! {
global size_of usize == 8;
pub enum PdfError { EOF, Other }
pub type Result<T, E=PdfError> = core::result::Result<T, E>;

// ISO 32000-1 7.4.5 RunLengthDecode; None = malformed (truncated run)
pub open spec fn rl_spec(d: Seq<u8>, c: int) -> Option<Seq<u8>> decreases d.len() - c {
    if c < 0 || c >= d.len() { Some(Seq::empty()) } else {
        let l = d[c] as int;
        if l < 128 {
            if c + 2 + l > d.len() { None } else {
                match rl_spec(d, c + 2 + l) { Some(rest) => Some(d.subrange(c + 1, c + 2 + l) + rest), None => None } }
        } else if l >= 129 {
            if c + 1 >= d.len() { None } else {
                match rl_spec(d, c + 2) { Some(rest) => Some(Seq::new((257 - l) as nat, |i: int| d[c + 1]) + rest), None => None } }
        } else { Some(Seq::empty()) }
    }
}
#[verifier::external_body]
fn hoist_extend_repeat(buf: &mut Vec<u8>, b: u8, n: usize)
    ensures final(buf)@ == old(buf)@ + Seq::new(n as nat, |i: int| b)
{ buf.extend(std::iter::repeat(b).take(n)); }

pub fn run_length_decode(data: &[u8]) -> (r: Result<Vec<u8>>)
    requires data@.len() <= 0x7fff_ffff_ffff_ff00
    ensures match rl_spec(data@, 0) { Some(s) => r matches Ok(v) && v@ == s, None => r is Err }
{
    // Used <http://benno.id.au/refs/PDFReference15_v5.pdf> as specification
    let mut buf = Vec::new();
    let d = data;
    let mut c = 0;

    while c < data.len()
        invariant d == data, c <= data@.len(), data@.len() <= 0x7fff_ffff_ffff_ff00,
            // what is already decoded + what the spec says for the rest == spec for the whole
            match rl_spec(data@, c as int) { Some(rest) => rl_spec(data@, 0) == Some(buf@ + rest), None => rl_spec(data@, 0) is None },
        ensures match rl_spec(data@, 0) { Some(s) => buf@ == s, None => false },
        decreases data@.len() - c
    {
        let length = d[c]; // length is first byte
        if length < 128 {
            let start = c + 1;
            let end = start + length as usize + 1;
            if end > d.len() { return Err(PdfError::EOF); }          // <- shape of the planned fix
            // copy _following_ length + 1 bytes literally
            let ghost b0 = buf@;
            buf.extend_from_slice(&d[start..end]);
            proof {
                let rest = rl_spec(data@, end as int);
                if rest is Some { assert((b0 + data@.subrange(start as int, end as int)) + rest.unwrap() =~= b0 + (data@.subrange(start as int, end as int) + rest.unwrap())); }
            }
            c = end; // move cursor to next run
        } else if length >= 129 {
            let copy = 257 - length as usize; // copy 2 - 128 times
            if c + 1 >= d.len() { return Err(PdfError::EOF); }       // <- shape of the planned fix
            let b = d[c + 1]; // copied byte
            let ghost b0 = buf@;
            hoist_extend_repeat(&mut buf, b, copy);
            proof {
                let rest = rl_spec(data@, c as int + 2);
                let rep = Seq::new(copy as nat, |i: int| b);
                if rest is Some { assert((b0 + rep) + rest.unwrap() =~= b0 + (rep + rest.unwrap())); }
            }
            c += 2; // move cursor to next run
        } else {
            proof { assert(rl_spec(data@, c as int) == Some(Seq::<u8>::empty())); assert(buf@ + Seq::<u8>::empty() =~= buf@); }
            break; // EOD
        }
    }

    Ok(buf)
}
}
fn main(){}
