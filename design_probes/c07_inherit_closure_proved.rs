use vstd::prelude::*;
verus! {
pub enum PdfError { Other, MissingEntry }
pub type Result<T, E=PdfError> = core::result::Result<T, E>;
#[derive(Clone, Copy)]
pub struct Rectangle { pub left: f32, pub bottom: f32, pub right: f32, pub top: f32 }
pub struct PageTree { pub parent: Option<Box<PageTree>>, pub media_box: Option<Rectangle>, pub crop_box: Option<Rectangle> }
pub struct Page { pub parent: Box<PageTree>, pub media_box: Option<Rectangle>, pub crop_box: Option<Rectangle> }

// spec: nearest ancestor (starting at t) that has the attribute
pub open spec fn nearest_mb(t: PageTree) -> Option<Rectangle> decreases t {
    match t.media_box { Some(b) => Some(b), None => match t.parent { Some(p) => nearest_mb(*p), None => None } }
}

// relational spec: o is what the first ancestor (from t upward) with f(..) == Some gives, or None
pub open spec fn nearest_f<'a, T, F: Fn(&'a PageTree) -> Option<T>>(t: PageTree, f: F, o: Option<T>) -> bool decreases t {
    exists|here: Option<T>| f.ensures((&t,), here) && (match here { Some(v) => o == Some(v), None => match t.parent { Some(p) => nearest_f(*p, f, o), None => o is None } })
}
#[verifier::loop_isolation(false)]
fn inherit<'a, T: 'a, F>(mut parent: &'a PageTree, f: F) -> (r: Result<Option<T>>)
    where F: Fn(&'a PageTree) -> Option<T>
    requires forall|p: &'a PageTree| f.requires((p,)),
    ensures r matches Ok(o) && nearest_f(*parent, f, o),
{
    let ghost start = *parent;
    loop
        invariant forall|p: &'a PageTree| f.requires((p,)),
            forall|o: Option<T>| nearest_f(*parent, f, o) ==> nearest_f(start, f, o),
        decreases *parent
    {
        let ghost cur = *parent;
        let here = f(parent);
        proof { assert(f.ensures((parent,), here)); }
        match (&parent.parent, here) {
            (_, Some(t)) => { proof { assert(nearest_f(cur, f, Some(t))); assert(nearest_f(start, f, Some(t))); } return Ok(Some(t)) },
            (Some(ref p), None) => {
                proof { assert forall|o: Option<T>| nearest_f(**p, f, o) implies nearest_f(cur, f, o) by { assert(f.ensures((&cur,), None::<T>)); } }
                parent = p
            },
            (None, None) => { proof { assert(nearest_f(cur, f, None::<T>)); assert(nearest_f(start, f, None::<T>)); } return Ok(None) }
        }
    }
}
}
fn main(){}
