use vstd::prelude::*;
verus! {
pub mod pdf {
    use vstd::prelude::*;
    pub mod error {
        use vstd::prelude::*;
        pub enum PdfError { Other, UnexpectedPrimitive, FromPrimitive { typ: &'static str, field: &'static str, source: Box<PdfError> } }
        pub type Result<T, E=PdfError> = core::result::Result<T, E>;
    }
    pub mod primitive {
        use vstd::prelude::*;
        pub enum Primitive { Null, Integer(i32), Boolean(bool) }
        pub struct Dictionary { pub m: Ghost<Map<Seq<char>, Primitive>> }
        impl Dictionary {
            pub open spec fn view(&self) -> Map<Seq<char>, Primitive> { self.m@ }
            #[verifier::external_body]
            pub fn new() -> (r: Dictionary) ensures r@ == Map::<Seq<char>, Primitive>::empty() { unimplemented!() }
            #[verifier::external_body]
            pub fn insert(&mut self, key: &str, val: Primitive) ensures final(self)@ == old(self)@.insert(key@, val) { unimplemented!() }
            #[verifier::external_body]
            pub fn remove(&mut self, key: &str) -> (r: Option<Primitive>)
                ensures final(self)@ == old(self)@.remove(key@),
                    old(self)@.dom().contains(key@) ==> r == Some(old(self)@[key@]),
                    !old(self)@.dom().contains(key@) ==> r is None
            { unimplemented!() }
        }
    }
    pub mod object {
        use vstd::prelude::*;
        use super::primitive::*; use super::error::*;
        pub trait Resolve {}
        pub trait Updater {}
        pub trait Object: Sized {
            spec fn reads(p: Primitive) -> Result<Self>;
            fn from_primitive(p: Primitive, resolve: &impl Resolve) -> (r: Result<Self>) ensures r == Self::reads(p);
        }
        pub trait ObjectWrite: Sized {
            spec fn writes(&self) -> Primitive;
            fn to_primitive(&self, update: &mut impl Updater) -> (r: Result<Primitive>) ensures r == Ok::<Primitive, PdfError>(self.writes());
        }
        impl Object for i32 {
            open spec fn reads(p: Primitive) -> Result<i32> { match p { Primitive::Integer(n) => Ok(n), _ => Err(PdfError::UnexpectedPrimitive) } }
            fn from_primitive(p: Primitive, r: &impl Resolve) -> Result<Self> {
                match p {
                    Primitive::Integer(n) => Ok(n),
                    _ => Err(PdfError::UnexpectedPrimitive)
                }
            }
        }
        impl ObjectWrite for i32 {
            open spec fn writes(&self) -> Primitive { Primitive::Integer(*self) }
            fn to_primitive(&self, _u: &mut impl Updater) -> Result<Primitive> {
                Ok(Primitive::Integer(*self))
            }
        }
    }
}
use pdf::error::*;
pub struct LZWFlateParams { pub predictor: i32, pub n_components: i32 }

        pub fn from_dict(mut dict: pdf::primitive::Dictionary,
            resolve: &impl pdf::object::Resolve) -> (r: pdf::error::Result<LZWFlateParams>)
            ensures
                forall|p: i32, c: i32| (dict@.dom().contains("Predictor"@) && dict@["Predictor"@] == pdf::primitive::Primitive::Integer(p)
                 && dict@.dom().contains("Colors"@) && dict@["Colors"@] == pdf::primitive::Primitive::Integer(c))
                ==> (r matches Ok(v) && v.predictor == p && v.n_components == c),
        {
            proof { reveal_strlit("Predictor"); reveal_strlit("Colors"); assert("Predictor"@[0] == 'P'); assert("Colors"@[0] == 'C'); }
            let predictor =
                {
                    let primitive: Option<pdf::primitive::Primitive> =
                        dict.remove("Predictor");
                    let x: i32 =
                        match primitive {
                            Some(primitive) =>
                                <i32 as
                                                pdf::object::Object>::from_primitive(primitive,
                                            resolve).map_err(|e|
                                            pdf::error::PdfError::FromPrimitive {
                                                typ: "LZWFlateParams",
                                                field: "predictor",
                                                source: Box::new(e),
                                            })?,
                            None => 1,
                        };
                    x
                };
            let n_components =
                {
                    let primitive: Option<pdf::primitive::Primitive> =
                        dict.remove("Colors");
                    let x: i32 =
                        match primitive {
                            Some(primitive) =>
                                <i32 as
                                                pdf::object::Object>::from_primitive(primitive,
                                            resolve).map_err(|e|
                                            pdf::error::PdfError::FromPrimitive {
                                                typ: "LZWFlateParams",
                                                field: "n_components",
                                                source: Box::new(e),
                                            })?,
                            None => 1,
                        };
                    x
                };
            Ok(LZWFlateParams { predictor: predictor, n_components: n_components })
        }
        pub fn to_dict(this: &LZWFlateParams, updater: &mut impl pdf::object::Updater)
            -> (r: Result<pdf::primitive::Dictionary>)
            ensures (r matches Ok(d) && d@.dom().contains("Predictor"@) && d@["Predictor"@] == pdf::primitive::Primitive::Integer(this.predictor)
                && d@.dom().contains("Colors"@) && d@["Colors"@] == pdf::primitive::Primitive::Integer(this.n_components))
        {
            proof { reveal_strlit("Predictor"); reveal_strlit("Colors"); assert("Predictor"@[0] == 'P'); assert("Colors"@[0] == 'C'); }
            let mut dict = pdf::primitive::Dictionary::new();
            let val =
                pdf::object::ObjectWrite::to_primitive(&this.predictor,
                        updater)?;
            if !#[allow(non_exhaustive_omitted_patterns)] match val {
                        pdf::primitive::Primitive::Null => true,
                        _ => false,
                    } {
                let val2 = val;
                dict.insert("Predictor", val2);
            }
            let val =
                pdf::object::ObjectWrite::to_primitive(&this.n_components,
                        updater)?;
            if !#[allow(non_exhaustive_omitted_patterns)] match val {
                        pdf::primitive::Primitive::Null => true,
                        _ => false,
                    } {
                let val2 = val;
                dict.insert("Colors", val2);
            }
            Ok(dict)
        }
}
fn main(){}
