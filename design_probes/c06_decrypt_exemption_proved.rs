use vstd::prelude::*;
macro_rules! t { ($e:expr $(,$c:expr)*) => { match $e { Ok(v) => v, Err(e) => { return Err(PdfError::Try(Box::new(e))) } } }; }
verus! {
pub enum PdfError { DecryptionFailure, Other, Try(Box<PdfError>) }
pub type Result<T, E=PdfError> = core::result::Result<T, E>;
#[derive(Clone, Copy, PartialEq, Eq, Structural)]
pub struct PlainRef { pub id: u64, pub gen: u64 }
#[derive(Clone, Copy)]
pub enum CryptMethod { None, V2, AESV2, AESV3 }
pub struct Decoder {
    pub key_size: usize,
    pub key: Vec<u8>,
    pub method: CryptMethod,
    pub encrypt_indirect_object: Option<PlainRef>,
    pub metadata_indirect_object: Option<PlainRef>,
    pub encrypt_metadata: bool,
}
pub uninterp spec fn md5_spec(s: Seq<u8>) -> Seq<u8>;
pub uninterp spec fn rc4_spec(key: Seq<u8>, data: Seq<u8>) -> Seq<u8>;

#[verifier::external_body]
fn hoist_md5(input: &[u8]) -> (r: [u8; 16]) ensures r@ == md5_spec(input@) { unimplemented!() }
#[verifier::external_body]
fn hoist_rc4(key: &[u8], data: &mut [u8]) ensures final(data)@ == rc4_spec(key@, old(data)@) { unimplemented!() }
#[verifier::external_body]
fn hoist_copy(dst: &mut [u8], src: &[u8]) requires old(dst)@.len() == src@.len() ensures final(dst)@ == src@ { unimplemented!() }
#[verifier::external_body]
fn hoist_min(a: usize, b: usize) -> (r: usize) ensures r == if a < b { a } else { b } { std::cmp::min(a,b) }
#[verifier::external_body]
fn le3(x: u64) -> (r: [u8; 3]) { unimplemented!() }

impl Decoder {
    fn key(&self) -> (r: &[u8])
        requires self.key@.len() >= 16 || self.key@.len() >= self.key_size
        ensures r@ == self.key@.subrange(0, if self.key_size < 16 { self.key_size as int } else { 16 })
    {
        &self.key[.. hoist_min(self.key_size, 16)]
    }
    pub fn decrypt<'buf>(&self, id: PlainRef, data: &'buf mut [u8]) -> (r: Result<&'buf [u8]>)
        requires self.key@.len() >= 16 || self.key@.len() >= self.key_size
        ensures self.encrypt_indirect_object == Some(id) ==> (r matches Ok(d) && d@ == old(data)@)
    {
        if self.encrypt_indirect_object == Some(id) {
            // Strings inside the /Encrypt dictionary are not encrypted
            return Ok(data);
        }
        if !self.encrypt_metadata && self.metadata_indirect_object == Some(id) {
            return Ok(data);
        }
        if data.is_empty() {
            return Ok(data);
        }
        match self.method {
            CryptMethod::V2 => {
                // b)
                let mut key = [0; 16 + 5];
                let n = self.key().len();
                hoist_copy(&mut key[..n], self.key());
                // c)
                let key = hoist_md5(&key[..n + 5]);
                // d)
                hoist_rc4(&key[..(n + 5).min(16)], data);
                Ok(data)
            }
            _ => Err(PdfError::Other)
        }
    }
}
}
fn main(){}
