use vstd::prelude::*;
macro_rules! bail { ($($t:tt)*) => { return Err(PdfError::Other) } }
verus! {
pub enum PdfError { Other, IncorrectPredictorType }
pub type Result<T, E=PdfError> = core::result::Result<T, E>;
#[derive(Clone, Copy, PartialEq, Eq)]
pub enum PredictorType { NoFilter = 0, Sub = 1, Up = 2, Avg = 3, Paeth = 4 }
impl PredictorType {
    pub fn from_u8(n: u8) -> Result<PredictorType> {
        match n {
            0 => Ok(PredictorType::NoFilter),
            1 => Ok(PredictorType::Sub),
            2 => Ok(PredictorType::Up),
            3 => Ok(PredictorType::Avg),
            4 => Ok(PredictorType::Paeth),
            n => Err(PdfError::IncorrectPredictorType)
        }
    }
}
pub struct LZWFlateParams { pub predictor: i32, pub n_components: i32, pub bits_per_component: i32, pub columns: i32, pub early_change: i32 }

#[verifier::external_body]
fn inflate_bytes_zlib(data: &[u8]) -> Result<Vec<u8>> { unimplemented!() }
#[verifier::external_body]
fn inflate_bytes(data: &[u8]) -> Result<Vec<u8>> { unimplemented!() }
#[verifier::external_body]
fn dump_data(data: &[u8]) { }
#[verifier::external_body]
pub fn unfilter(filter: PredictorType, bpp: usize, prev: &[u8], inp: &[u8], out: &mut [u8])
    requires inp@.len() == old(out)@.len(), inp@.len() == prev@.len()
    ensures final(out)@.len() == old(out)@.len()
{ }

pub fn flate_decode(data: &[u8], params: &LZWFlateParams) -> Result<Vec<u8>> {

    let predictor = params.predictor as usize;
    let n_components = params.n_components as usize;
    let columns = params.columns as usize;
    let stride = columns * n_components;


    // First flate decode
    let decoded = {
        if let Ok(data) = inflate_bytes_zlib(data) {
            data
        } else if let Ok(data) = inflate_bytes(data) {
            data
        } else {
            dump_data(data);
            bail!("can't inflate");
        }
    };
    // Then unfilter (PNG)
    // For this, take the old out as input, and write output to out

    if predictor > 10 {
        let inp = decoded; // input buffer
        let rows = inp.len() / (stride+1);
        
        // output buffer
        let mut out = vec![0; rows * stride];
    
        // Apply inverse predictor
        let null_vec = vec![0; stride];
        
        let mut in_off = 0; // offset into input buffer
        
        let mut out_off = 0; // offset into output buffer
        let mut last_out_off = 0; // last offset to output buffer
        
        while in_off + stride < inp.len()
            decreases inp@.len() - in_off
        {
            let predictor = PredictorType::from_u8(inp[in_off])?;
            in_off += 1; // +1 because the first byte on each row is predictor
            
            let row_in = &inp[in_off .. in_off + stride];
            let (prev_row, row_out) = if out_off == 0 {
                (&null_vec[..], &mut out[out_off .. out_off+stride])
            } else {
                let (prev, curr) = out.split_at_mut(out_off);
                (&prev[last_out_off ..], &mut curr[.. stride])
            };
            unfilter(predictor, n_components, prev_row, row_in, row_out);
            
            last_out_off = out_off;
            
            in_off += stride;
            out_off += stride;
        }
        Ok(out)
    } else {
        Ok(decoded)
    }
}
}
fn main(){}
