use vstd::prelude::*;
verus! {
pub enum PdfError { NoOpArg, Other }
pub type Result<T, E=PdfError> = core::result::Result<T, E>;
pub enum Primitive { Integer(i32), Number(f32), Null }
#[derive(Clone, Copy)]
pub struct Point { pub x: f32, pub y: f32 }
pub enum Op { Close, Stroke, LineTo { p: Point }, MoveTo { p: Point }, EndPath, Save, Restore, BeginText, EndText, TextNewline, CurveTo { c1: Point, c2: Point, p: Point } }

pub uninterp spec fn num_of(p: Primitive) -> f32;
pub uninterp spec fn is_num(p: Primitive) -> bool;

impl Primitive {
    #[verifier::external_body]
    pub fn as_number(&self) -> (r: Result<f32>)
        ensures is_num(*self) ==> r == Ok::<f32, PdfError>(num_of(*self)), !is_num(*self) ==> r is Err
    { unimplemented!() }
}
// abstract operand source: Vec drained front to back
pub struct Args { pub v: Vec<Primitive>, pub i: usize }
impl Args {
    pub open spec fn rest(&self) -> Seq<Primitive> { self.v@.subrange(self.i as int, self.v@.len() as int) }
    #[verifier::external_body]
    pub fn next(&mut self) -> (r: Option<Primitive>)
        requires old(self).i <= old(self).v@.len()
        ensures final(self).v == old(self).v, final(self).i <= final(self).v@.len(),
            old(self).i < old(self).v@.len() ==> r == Some(old(self).v@[old(self).i as int]) && final(self).i == old(self).i + 1,
            old(self).i >= old(self).v@.len() ==> r is None && final(self).i == old(self).i,
    { unimplemented!() }
}
fn point(args: &mut Args) -> (r: Result<Point>)
    requires old(args).i <= old(args).v@.len()
    ensures final(args).v == old(args).v, final(args).i <= final(args).v@.len(),
        (old(args).rest().len() >= 2 && is_num(old(args).rest()[0]) && is_num(old(args).rest()[1])) ==>
            (r matches Ok(p) && p.x == num_of(old(args).rest()[0]) && p.y == num_of(old(args).rest()[1]) && final(args).i == old(args).i + 2)
{
    let x = args.next().ok_or(PdfError::NoOpArg)?.as_number()?;
    let y = args.next().ok_or(PdfError::NoOpArg)?.as_number()?;
    Ok(Point { x, y })
}
#[verifier::external_body]
fn str_eq(a: &str, b: &str) -> (r: bool) ensures r == (a@ == b@) { a == b }
pub struct OpBuilder { pub last: Point, pub ops: Vec<Op> }
impl OpBuilder {
    fn add(&mut self, op: &str, mut args: Args) -> (r: Result<()>)
        requires args.i == 0
        ensures
            op@ == "s"@ ==> r is Ok && final(self).ops@.len() == old(self).ops@.len() + 2
                && final(self).ops@[old(self).ops@.len() as int] is Close && final(self).ops@[old(self).ops@.len() as int + 1] is Stroke,
            (op@ == "l"@ && args.v@.len() == 2 && is_num(args.v@[0]) && is_num(args.v@[1])) ==> r is Ok && final(self).ops@.len() == old(self).ops@.len() + 1
                && (final(self).ops@[old(self).ops@.len() as int] matches Op::LineTo{p} && p.x == num_of(args.v@[0]) && p.y == num_of(args.v@[1]))
                && final(self).last.x == num_of(args.v@[0]),
    {
        proof { reveal_strlit("s"); assert("s"@.len() == 1); assert("s"@[0] == 's'); reveal_strlit("l"); assert("l"@.len() == 1); assert("l"@[0] == 'l'); reveal_strlit("m"); assert("m"@.len() == 1); assert("m"@[0] == 'm'); reveal_strlit("n"); assert("n"@.len() == 1); assert("n"@[0] == 'n'); reveal_strlit("q"); assert("q"@.len() == 1); assert("q"@[0] == 'q'); reveal_strlit("Q"); assert("Q"@.len() == 1); assert("Q"@[0] == 'Q'); reveal_strlit("BT"); assert("BT"@.len() == 2); assert("BT"@[0] == 'B'); assert("BT"@[1] == 'T'); reveal_strlit("ET"); assert("ET"@.len() == 2); assert("ET"@[0] == 'E'); assert("ET"@[1] == 'T'); reveal_strlit("T*"); assert("T*"@.len() == 2); assert("T*"@[0] == 'T'); assert("T*"@[1] == '*'); reveal_strlit("h"); assert("h"@.len() == 1); assert("h"@[0] == 'h'); reveal_strlit("S"); assert("S"@.len() == 1); assert("S"@[0] == 'S');  }
        
        if str_eq(op, "h") { self.ops.push(Op::Close) }
        else if str_eq(op, "S") { self.ops.push(Op::Stroke) }
        else if str_eq(op, "s") {
                self.ops.push(Op::Close);
                self.ops.push(Op::Stroke);
            }
        else if str_eq(op, "l") {
                let p = point(&mut args)?;
                self.ops.push(Op::LineTo { p });
                self.last = p;
            }
        else if str_eq(op, "m") {
                let p = point(&mut args)?;
                self.ops.push(Op::MoveTo { p });
                self.last = p;
            }
        else if str_eq(op, "n") { self.ops.push(Op::EndPath) }
        else if str_eq(op, "q") { self.ops.push(Op::Save) }
        else if str_eq(op, "Q") { self.ops.push(Op::Restore) }
        else if str_eq(op, "BT") { self.ops.push(Op::BeginText) }
        else if str_eq(op, "ET") { self.ops.push(Op::EndText) }
        else if str_eq(op, "T*") { self.ops.push(Op::TextNewline) }
        else {}
        Ok(())
    }
}
}
fn main(){}
