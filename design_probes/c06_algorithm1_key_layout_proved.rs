use vstd::prelude::*;
verus! {
global size_of usize == 8;
#[verifier::external_body]
fn hoist_copy(dst: &mut [u8], src: &[u8]) requires old(dst)@.len() == src@.len() ensures final(dst)@ == src@ { dst.copy_from_slice(src) }
pub uninterp spec fn md5_spec(s: Seq<u8>) -> Seq<u8>;
#[verifier::external_body]
fn hoist_md5(input: &[u8]) -> (r: [u8; 16]) ensures r@ == md5_spec(input@) { todo!() }
#[verifier::external_body]
fn le_bytes3(x: u64) -> (r: [u8; 8]) ensures r@.len() == 8 { x.to_le_bytes() }
pub uninterp spec fn le(x: u64) -> Seq<u8>;

fn layout(filekey: &[u8], id: u64, gen: u64) -> (r: [u8; 16])
    requires filekey@.len() <= 16
    ensures r@ == md5_spec(filekey@ + le(id).subrange(0, 3) + le(gen).subrange(0, 2))
{
    let mut key = [0; 16 + 5];
    let n = filekey.len();
    hoist_copy(&mut key[..n], filekey);
    let idb = le_bytes3(id);
    let genb = le_bytes3(gen);
    proof { assume(idb@ == le(id) && genb@ == le(gen)); }
    hoist_copy(&mut key[n..n + 3], &idb[..3]);
    hoist_copy(&mut key[n + 3..n + 5], &genb[..2]);
    let key2 = hoist_md5(&key[..n + 5]);
    proof {
        assert(key@.subrange(0, n + 5) =~= filekey@ + le(id).subrange(0, 3) + le(gen).subrange(0, 2));
    }
    key2
}
}
fn main(){}
