use vstd::prelude::*;
macro_rules! bail { ($($t:tt)*) => { return Err(PdfError::Other) } }
verus! {
pub enum PdfError { Other, UnspecifiedXRefEntry { id: u64 } }
pub type Result<T, E=PdfError> = core::result::Result<T, E>;
pub type ObjNr = u64; pub type GenNr = u64;
#[derive(Clone, Copy)]
pub struct PlainRef { pub id: ObjNr, pub gen: GenNr }
#[derive(Copy, Clone)]
pub enum XRef { Free { next_obj_nr: ObjNr, gen_nr: GenNr }, Raw { pos: usize, gen_nr: GenNr }, Stream { stream_id: ObjNr, index: usize }, Promised, Invalid }
pub struct XRefTable { pub entries: Vec<XRef> }
impl XRefTable {
    pub fn get(&self, id: ObjNr) -> (r: Result<XRef>)
        ensures id < self.entries@.len() ==> r == Ok::<XRef, PdfError>(self.entries@[id as int]), id >= self.entries@.len() ==> r is Err
    { if id < self.entries.len() as u64 { Ok(self.entries[id as usize]) } else { Err(PdfError::UnspecifiedXRefEntry {id}) } }
    pub fn len(&self) -> (r: usize) ensures r == self.entries@.len() { self.entries.len() }
    pub fn push(&mut self, new_entry: XRef) ensures final(self).entries@ == old(self).entries@.push(new_entry) { self.entries.push(new_entry); }
}
pub struct Primitive { pub tok: Ghost<int> }
pub struct Changes { pub m: Ghost<Map<ObjNr, (Primitive, GenNr)>> }
impl Changes {
    #[verifier::external_body]
    pub fn insert(&mut self, id: ObjNr, v: (Primitive, GenNr)) ensures final(self).m@ == old(self).m@.insert(id, v) { todo!() }
}
pub uninterp spec fn merged(old: Primitive, new: Primitive) -> Primitive;   // dictionary merge on repeated update
#[verifier::external_body]
fn hoist_entry_merge(changes: &mut Changes, id: ObjNr, primitive: Primitive, gen: GenNr)
    ensures !old(changes).m@.dom().contains(id) ==> final(changes).m@ == old(changes).m@.insert(id, (primitive, gen)),
        old(changes).m@.dom().contains(id) ==> final(changes).m@.dom() == old(changes).m@.dom()
            && final(changes).m@[id].0 == merged(old(changes).m@[id].0, primitive)
            && forall|k: ObjNr| k != id && old(changes).m@.dom().contains(k) ==> final(changes).m@[k] == old(changes).m@[k],
{ todo!() }
pub struct RcRef<T> { pub inner: PlainRef, pub data: T }
pub struct Storage { pub changes: Changes, pub refs: XRefTable }
pub trait ObjectWrite: Sized {
    spec fn prim(&self) -> Primitive;
    // re-entrant: may create further objects, never touches existing ones
    fn to_primitive(&self, update: &mut Storage) -> (r: Result<Primitive>)
        ensures r matches Ok(p) ==> p == self.prim(),
            final(update).refs.entries@.len() >= old(update).refs.entries@.len(),
            forall|i: int| 0 <= i < old(update).refs.entries@.len() ==> final(update).refs.entries@[i] == old(update).refs.entries@[i],
            forall|k: ObjNr| old(update).changes.m@.dom().contains(k) ==> final(update).changes.m@.dom().contains(k) && final(update).changes.m@[k] == old(update).changes.m@[k],
            forall|k: ObjNr| final(update).changes.m@.dom().contains(k) && !old(update).changes.m@.dom().contains(k) ==> k >= old(update).refs.entries@.len();
}
impl Storage {
    fn create<T: ObjectWrite>(&mut self, obj: T) -> (r: Result<RcRef<T>>)
        ensures r matches Ok(rc) ==> rc.inner.id == old(self).refs.entries@.len() && rc.inner.gen == 0
            && final(self).changes.m@.dom().contains(rc.inner.id) && final(self).changes.m@[rc.inner.id].0 == obj.prim()
            && final(self).refs.entries@.len() > old(self).refs.entries@.len()
            && final(self).refs.entries@[rc.inner.id as int] is Promised
    {
        let id = self.refs.len() as u64;
        self.refs.push(XRef::Promised);
        let primitive = obj.to_primitive(self)?;
        self.changes.insert(id, (primitive, 0));
        let rc = obj;
        let r = PlainRef { id, gen: 0 };
        
        Ok(RcRef { inner: r, data: rc })
    }
    fn update<T: ObjectWrite>(&mut self, old_: PlainRef, obj: T) -> (res: Result<RcRef<T>>)
        requires old_.id < old(self).refs.entries@.len(), !(old(self).refs.entries@[old_.id as int] is Free), !(old(self).refs.entries@[old_.id as int] is Invalid)
        ensures res matches Ok(rc) ==> rc.inner.id == old_.id      // "the very reference the caller passed"
            && final(self).changes.m@.dom().contains(old_.id)
    {
        let r = match self.refs.get(old_.id)? {
            XRef::Free { .. } => panic!(),
            XRef::Raw { gen_nr, .. } => PlainRef { id: old_.id, gen: gen_nr },
            XRef::Stream { .. } => return self.create(obj),
            XRef::Promised => PlainRef { id: old_.id, gen: 0 },
            XRef::Invalid => panic!()
        };
        let primitive = obj.to_primitive(self)?;
        hoist_entry_merge(&mut self.changes, old_.id, primitive, r.gen);
        let rc = obj;
        
        Ok(RcRef { inner: r, data: rc })
    }
}
}
fn main(){}
