use vstd::prelude::*;
verus! {
global size_of usize == 8;
pub enum PdfError { Other }
pub type Result<T, E=PdfError> = core::result::Result<T, E>;
pub open spec fn pow256(k: nat) -> nat decreases k { if k == 0 { 1 } else { 256 * pow256((k - 1) as nat) } }
pub open spec fn be_val(s: Seq<u8>) -> nat decreases s.len() { if s.len() == 0 { 0 } else { be_val(s.drop_last()) * 256 + s.last() as nat } }

#[verifier::external_body]
fn u64_from(c: u8) -> (r: u64) ensures r == c { u64::from(c) }

proof fn lemma_pow256_vals()
    ensures pow256(0) == 1, pow256(1) == 0x100, pow256(2) == 0x1_0000, pow256(3) == 0x100_0000, pow256(4) == 0x1_0000_0000,
        pow256(5) == 0x100_0000_0000, pow256(6) == 0x1_0000_0000_0000, pow256(7) == 0x100_0000_0000_0000, pow256(8) == 0x1_0000_0000_0000_0000,
{ reveal_with_fuel(pow256, 10); }
proof fn lemma_shl(c: u64, i: u64)
    requires c < 256, i < 8
    ensures (c << (8 * i)) as nat == c as nat * pow256(i as nat)
{
    lemma_pow256_vals();
    if i == 0 { assert(c << 0u64 == c) by (bit_vector); }
    else if i == 1 { assert(c < 256 ==> c << 8u64 == c * 0x100) by (bit_vector); }
    else if i == 2 { assert(c < 256 ==> c << 16u64 == c * 0x1_0000) by (bit_vector); }
    else if i == 3 { assert(c < 256 ==> c << 24u64 == c * 0x100_0000) by (bit_vector); }
    else if i == 4 { assert(c < 256 ==> c << 32u64 == c * 0x1_0000_0000) by (bit_vector); }
    else if i == 5 { assert(c < 256 ==> c << 40u64 == c * 0x100_0000_0000) by (bit_vector); }
    else if i == 6 { assert(c < 256 ==> c << 48u64 == c * 0x1_0000_0000_0000) by (bit_vector); }
    else { assert(c < 256 ==> c << 56u64 == c * 0x100_0000_0000_0000) by (bit_vector); }
}
// be_val of a prefix extended by one byte
proof fn lemma_be_push(s: Seq<u8>, j: int)
    requires 0 <= j < s.len()
    ensures be_val(s.subrange(0, j + 1)) == be_val(s.subrange(0, j)) * 256 + s[j] as nat
{
    assert(s.subrange(0, j + 1).drop_last() =~= s.subrange(0, j));
}
proof fn lemma_be_bound(s: Seq<u8>)
    ensures be_val(s) < pow256(s.len())
    decreases s.len()
{ if s.len() > 0 { lemma_be_bound(s.drop_last()); } }

fn read_u64_from_stream(width: usize, data: &mut &[u8]) -> (r: Result<u64>)
    ensures r is Ok <==> (width <= 8 && width <= old(data)@.len()),
        r matches Ok(v) ==> final(data)@ == old(data)@.subrange(width as int, old(data)@.len() as int)
            && v == be_val(old(data)@.subrange(0, width as int)),
        r is Err ==> final(data)@ == old(data)@,
{
    if width > std::mem::size_of::<u64>() {
        return Err(PdfError::Other);
    }
    if width > data.len() {
        return Err(PdfError::Other);
    }
    let mut result: u64 = 0;
    let ghost d0 = data@;
    proof { lemma_pow256_vals(); assert(d0.subrange(0, 0) =~= Seq::<u8>::empty()); assert(be_val(d0.subrange(0, 0)) == 0); assert(0 * pow256(width as nat) == 0) by (nonlinear_arith); }
    for i in iter: (0..width).rev()
        invariant width <= 8, width <= d0.len(), iter.index@ <= width,
            data@ == d0.subrange(iter.index@ as int, d0.len() as int),
            // bytes consumed so far, scaled to their final position
            result as nat == be_val(d0.subrange(0, iter.index@ as int)) * pow256((width - iter.index@) as nat),
        ensures iter.index@ == width,
    {
        let ghost j = iter.index@ as int;
        proof { assert(i == width - 1 - j); }
        let base = 8 * i; // (width, 0]
        let c: u8 = data[0];
        *data = &data[1..]; // Consume byte
        proof {
            assert(c == d0[j]);
            lemma_shl(c as u64, i as u64);
            lemma_be_push(d0, j);
            lemma_be_bound(d0.subrange(0, j));
            lemma_pow256_vals();
            // (v*256 + c) * 256^i == v*256^(i+1) + c*256^i  and it stays below 256^width <= 2^64
            assert(pow256((i + 1) as nat) == 256 * pow256(i as nat));
            assert(be_val(d0.subrange(0, j + 1)) * pow256(i as nat) == be_val(d0.subrange(0, j)) * pow256((i + 1) as nat) + c as nat * pow256(i as nat)) by (nonlinear_arith)
                requires be_val(d0.subrange(0, j + 1)) == be_val(d0.subrange(0, j)) * 256 + c as nat, pow256((i + 1) as nat) == 256 * pow256(i as nat);
            lemma_be_bound(d0.subrange(0, j + 1));
            assert(be_val(d0.subrange(0, j + 1)) * pow256(i as nat) < pow256((j + 1) as nat) * pow256(i as nat)) by (nonlinear_arith)
                requires be_val(d0.subrange(0, j + 1)) < pow256((j + 1) as nat), pow256(i as nat) > 0;
            lemma_pow_mul((j + 1) as nat, i as nat);
        }
        result += u64_from(c) << base;
    }
    proof { lemma_pow256_vals(); assert(d0.subrange(0, width as int) == old(data)@.subrange(0, width as int)); assert(result as nat == be_val(d0.subrange(0, width as int)) * 1); }
    Ok(result)
}
proof fn lemma_pow_mul(a: nat, b: nat)
    ensures pow256(a) * pow256(b) == pow256(a + b)
    decreases a
{
    if a == 0 { assert(pow256(0) == 1); assert(1 * pow256(b) == pow256(b)) by (nonlinear_arith); assert(0 + b == b); } else {
        lemma_pow_mul((a - 1) as nat, b);
        assert(pow256(a) * pow256(b) == 256 * (pow256((a - 1) as nat) * pow256(b))) by (nonlinear_arith) requires pow256(a) == 256 * pow256((a - 1) as nat);
        assert(((a - 1) as nat + b) == (a + b - 1) as nat);
        assert(pow256(a + b) == 256 * pow256((a + b - 1) as nat));
        assert(256 * (pow256((a - 1) as nat) * pow256(b)) == 256 * pow256((a + b - 1) as nat));
    }
}
}
fn main(){}
