"""Bounded native stand-ins: exhaustive-small / differential tests that run the REAL function in a scratch copy.

Only for functions that neither verifier can read (stated per harness). Labelled BOUNDED in every report and never
counted among the discharged proof obligations.

unit['native'] = {'tests': [{'name': 'cmap_roundtrip_small', 'code': 'bounded_roundtrip_harness.rs',
                            'place': 'pdf/tests/verif_cmap_bounded.rs' | 'pdf/src/font.rs' (appended),
                            'fn': 'write_cmap', 'props': ['C19'], 'bound': '...', 'tier': 'quick'|'thorough',
                            'filter': 'optional test name filter', 'contract': '...'}]}
"""
import fcntl
import os
import re
import shutil
import subprocess
import time

from . import assemble, kani
from .verus import run_group

CACHE = kani.CACHE


def select(unit, tier, only_props):
    ts = unit.get('native', {}).get('tests', [])
    ts = [t for t in ts if (tier == 'thorough' or t.get('tier', 'quick') == 'quick')]
    if only_props:
        ts = [t for t in ts if set(t.get('props', [])) & set(only_props)]
    return ts


def run_units_native(units, tier, work, only_props=None, tag='n'):
    sel = {n: (p, u, select(u, tier, only_props)) for n, (p, u) in units.items()}
    sel = {n: v for n, v in sel.items() if v[2]}
    if not sel:
        return []
    dst = os.path.join(work, 'native_' + tag)
    os.makedirs(dst, exist_ok=True)
    kani.scratch_repo(dst)
    if not os.path.exists(os.path.join(dst, 'files')):
        try:
            os.symlink(os.path.join(assemble.REPO, 'files'), os.path.join(dst, 'files'))
        except OSError:
            pass
    results = []
    lock = open(os.path.join(CACHE, 'native.lock'), 'w')
    fcntl.flock(lock, fcntl.LOCK_EX)
    try:
        # the target dir is shared between checks: refresh the mtimes INSIDE the critical section (and strictly after
        # anything the previous holder wrote), or cargo may take the `pdf` library another check built from ANOTHER tree
        # for fresh -- a changed tree tested against the unchanged library, or the reverse
        time.sleep(1.1)
        subprocess.run(['find', os.path.join(dst, 'pdf'), os.path.join(dst, 'pdf_derive'), '-name', '*.rs', '-exec', 'touch', '{}', '+'], check=False)
        for name, (path, unit, tests) in sel.items():
            res = {'unit': name + ':native', 'status': 'ok', 'obligations': [], 'notes': [], 'trusted': [],
                   'functions': [], 'cmds': [], 'smt_s': 0.0, 'replay_extra': {}}
            for t in tests:
                t0 = time.time()
                code = open(os.path.join(path, t['code']), encoding='utf-8').read()
                place = os.path.join(dst, t['place'])
                appended = t['place'].startswith('pdf/src/')
                backup = None
                if appended:
                    backup = open(place, encoding='utf-8').read()
                    open(place, 'a', encoding='utf-8').write('\n' + code)
                else:
                    os.makedirs(os.path.dirname(place), exist_ok=True)
                    open(place, 'w', encoding='utf-8').write(code)
                cmd = ['cargo', 'test', '--offline', '-p', 'pdf']
                cmd += ['--lib'] if appended else ['--test', os.path.basename(t['place'])[:-3]]
                if t.get('filter'):
                    cmd.append(t['filter'])
                env = dict(os.environ, CARGO_NET_OFFLINE='true', CARGO_TARGET_DIR=os.path.join(CACHE, 'native-target'))
                try:
                    p = run_group(cmd, cwd=dst, env=env, timeout=t.get('timeout', 1800))
                    out = p.stdout + '\n' + p.stderr
                except subprocess.TimeoutExpired:
                    out = '[driver] timed out'
                if backup is not None:
                    open(place, 'w', encoding='utf-8').write(backup)
                else:
                    os.unlink(place)
                oid = '%s/%s/%s' % (name, t.get('fn', 'native'), t['name'])
                rec = {'id': oid, 'backend': 'native-test (real function, bounded)', 'props': t.get('props', []),
                       'status': 'discharged', 'bound': 'BOUNDED: ' + t.get('bound', '?'), 'kind': 'bounded',
                       'time_s': round(time.time() - t0, 1), 'contract': t.get('contract', '')}
                m = re.findall(r'^test result: (\w+)\. (\d+) passed; (\d+) failed', out, re.M)
                if m and all(x[0] == 'ok' for x in m) and sum(int(x[1]) for x in m) > 0:
                    pass
                elif m and any(int(x[2]) > 0 for x in m):
                    rec['status'] = 'failed'
                    fails = re.findall(r"^---- (.*?) stdout ----\n(.*?)(?=\n\n|\n----)", out, re.M | re.S)
                    rec['messages'] = [f[0] for f in fails][:5]
                    rec['rendered'] = out[-3000:]
                    res['replay_extra'][oid] = {'failing_input': '\n'.join('%s: %s' % f for f in fails)[:3000] or out[-1500:]}
                else:
                    rec['status'] = 'undecided'
                    rec['messages'] = ['native harness did not build or ran no test']
                    res['status'] = 'undecided'
                    res['notes'].append('native harness %s: no verdict; tail:\n%s' % (t['name'], out[-1500:]))
                res['obligations'].append(rec)
                res['cmds'].append(' '.join(cmd) + '   # in a scratch copy of /repo with ' + t['code'] + ' placed at ' + t['place'])
                res['functions'].append({'fn': t.get('fn', ''), 'file': t['place'], 'props': t.get('props', []),
                                         'time_s': rec['time_s'], 'backend': 'native-bounded'})
            results.append(res)
    finally:
        fcntl.flock(lock, fcntl.LOCK_UN)
        lock.close()
        shutil.rmtree(dst, ignore_errors=True)
    return results
