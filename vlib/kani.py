"""Kani pipeline: harness modules injected into a scratch copy of /repo, run on the real crate.

unit['kani'] = {
  'modules': [{'file': 'pdf/src/enc.rs', 'code': 'kani_enc.rs'}],      # appended as #[cfg(kani)] mod verif_<unit>
  'harnesses': [{'name': 'word_85_iso', 'props': [...], 'kind': 'complete'|'bounded', 'bound': '...',
                 'tier': 'quick'|'thorough', 'fn': 'word_85', 'timeout': 300, 'contract': '...'}],
}
"""
import fcntl
import os
import re
import shutil
import subprocess
import time

from . import assemble

ROOT = os.path.dirname(os.path.dirname(os.path.abspath(__file__)))
CACHE = os.path.join(ROOT, '.cache')


def scratch_repo(dst):
    src = assemble.REPO.rstrip('/') + '/'
    subprocess.run(['rsync', '-a', '--exclude', 'target', '--exclude', '.git', '--exclude', 'files',
                    '--exclude', 'examples/target', src, dst + '/'], check=True)
    # shared target dir + preserved mtimes would let cargo reuse a crate built from another tree as "fresh"
    subprocess.run(['find', dst, '-name', '*.rs', '-exec', 'touch', '{}', '+'], check=False)
    cfgdir = os.path.join(dst, '.cargo')
    os.makedirs(cfgdir, exist_ok=True)
    with open(os.path.join(cfgdir, 'config.toml'), 'a') as f:
        f.write('\n[net]\noffline = true\n')


def inject(dst, unit_name, unit_dir, kspec):
    for mod in kspec.get('modules', []):
        p = os.path.join(dst, mod['file'])
        if not os.path.exists(p):
            raise assemble.Undecided('anchor lost: %s missing' % mod['file'])
        code = open(os.path.join(unit_dir, mod['code']), encoding='utf-8').read()
        with open(p, 'a', encoding='utf-8') as f:
            f.write('\n#[cfg(kani)]\nmod verif_%s {\n#![allow(unused)]\nuse super::*;\n%s\n}\n' % (re.sub(r'\W', '_', unit_name + '_' + os.path.basename(mod['code']).split('.')[0]), code))


def parse_output(out):
    """Split cargo-kani output per harness -> {name: {...}}; handles sequential and -j (Thread N:) layouts."""
    blocks = {}
    thread_h = {}
    cur = None
    for line in out.split('\n'):
        m = re.match(r'^(?:Thread (\d+): )?Checking harness (\S+?)\.\.\.', line)
        if m:
            name = m.group(2).split('::')[-1]
            if m.group(1) is not None:
                thread_h[m.group(1)] = name
                cur = None
            else:
                cur = name
            blocks.setdefault(name, [])
            continue
        m = re.match(r'^Thread (\d+):\s*$', line)
        if m:
            cur = thread_h.get(m.group(1))
            continue
        if line.startswith('Manual Harness Summary') or line.startswith('Summary:'):
            cur = None
        if cur is not None:
            blocks[cur].append(line)
    res = {}
    for name, lines in blocks.items():
        text = '\n'.join(lines)
        m = re.search(r'VERIFICATION:-\s*(\w+)', text)
        status = m.group(1) if m else 'UNKNOWN'
        tm = re.search(r'Verification Time:\s*([0-9.]+)s', text)
        fails = re.findall(r'Failed Checks: (.*)', text)
        cov2 = re.search(r'\*\* (\d+) of (\d+) cover properties satisfied', text)
        res[name] = {'status': status, 'text': text, 'time': float(tm.group(1)) if tm else None,
                     'failed_checks': fails, 'covers': cov2.groups() if cov2 else None}
    return res


def select(unit, tier, only_props):
    kspec = unit.get('kani')
    if not kspec:
        return []
    hs = [h for h in kspec['harnesses'] if (tier == 'thorough' or h.get('tier', 'quick') == 'quick')]
    if only_props:
        hs = [h for h in hs if set(h.get('props', [])) & set(only_props)]
    return hs


def run_units_kani(units, tier, work, only_props=None, tag='k'):
    """units: {name: (path, unit)}. ONE scratch copy of /repo receives the harness modules of every unit that has
    selected harnesses; ONE `cargo kani` run checks them all (one build of the crate)."""
    sel = {}
    for name, (path, unit) in units.items():
        hs = select(unit, tier, only_props)
        if hs:
            sel[name] = (path, unit, hs)
    if not sel:
        return []
    t0 = time.time()
    results = {name: {'unit': name + ':kani', 'status': 'ok', 'obligations': [], 'notes': [], 'trusted': [],
                      'functions': [], 'cmds': [], 'smt_s': 0.0, 'replay_extra': {}} for name in sel}
    dst = os.path.join(work, 'kani_' + tag)
    os.makedirs(dst, exist_ok=True)
    os.makedirs(CACHE, exist_ok=True)
    try:
        scratch_repo(dst)
        for name, (path, unit, hs) in sel.items():
            inject(dst, name, path, unit['kani'])
    except assemble.Undecided as ex:
        for r in results.values():
            r['status'] = 'undecided'
            r['notes'].append(str(ex))
        return list(results.values())
    target = os.path.join(CACHE, 'kani-target')
    jobs = max([u['kani'].get('jobs', 8) for _, u, _ in sel.values()])
    cmd = ['cargo', 'kani', '-p', 'pdf', '-Z', 'function-contracts', '-Z', 'stubbing',
           '--target-dir', target, '-j', str(jobs), '--output-format', 'terse']
    for _, unit, hs in sel.values():
        for a in unit['kani'].get('args', []):
            if a not in cmd:
                cmd.append(a)
        for h in hs:
            cmd += ['--harness', h['name']]
    env = dict(os.environ, CARGO_NET_OFFLINE='true')
    tmo = sum(u['kani'].get('timeout', 1200 if tier == 'quick' else 2400) for _, u, _ in sel.values())
    # one run holds the shared lock: cap the whole run (harnesses without a result are 'undecided', never an alarm)
    tmo = min(tmo, int(os.environ.get('VERIF_KANI_CAP', '1500' if tier == 'quick' else '2700')))
    lock = open(os.path.join(CACHE, 'kani.lock'), 'w')
    fcntl.flock(lock, fcntl.LOCK_EX)
    try:
        from .verus import run_group
        # shared target dir: refresh the mtimes inside the critical section, strictly after the previous holder's outputs,
        # so that a crate built from ANOTHER tree is never taken for fresh (see vlib/native.py)
        time.sleep(1.1)
        subprocess.run(['find', dst, '-name', '*.rs', '-exec', 'touch', '{}', '+'], check=False)
        try:
            p = run_group(cmd, cwd=dst, env=env, timeout=tmo)
            out = p.stdout + '\n' + p.stderr
        except subprocess.TimeoutExpired:
            out = '\n[driver] cargo kani timed out after %ds' % tmo
    finally:
        fcntl.flock(lock, fcntl.LOCK_UN)
        lock.close()
    shown = ' '.join(cmd).replace(target, '<cache>/kani-target')
    parsed = parse_output(out)
    for name, (path, unit, hs) in sel.items():
        res = results[name]
        res['cmds'].append(shown)
        kspec = unit['kani']
        for h in hs:
            oid = '%s/%s/%s' % (name, h.get('fn', 'kani'), h['name'])
            pr = parsed.get(h['name'])
            kind = h.get('kind', 'bounded')
            rec = {'id': oid, 'backend': 'kani+cbmc', 'props': h.get('props', []), 'status': 'discharged',
                   'bound': 'complete (loop-free, full domain)' if kind == 'complete' else 'BOUNDED: ' + h.get('bound', '?'),
                   'time_s': pr['time'] if pr else None, 'contract': h.get('contract', ''), 'kind': kind}
            if pr is None:
                rec['status'] = 'undecided'
                rec['messages'] = ['harness produced no result (build error, timeout or out of memory)']
                res['status'] = 'undecided'
                res['notes'].append('kani harness %s: no result; tail of output:\n%s' % (h['name'], out[-2500:]))
            elif pr['status'] == 'SUCCESSFUL':
                if h.get('covers') and pr['covers'] and pr['covers'][0] != pr['covers'][1]:
                    rec['status'] = 'undecided'
                    rec['messages'] = ['vacuity: only %s of %s cover properties satisfied' % pr['covers']]
                    res['status'] = 'undecided'
                    res['notes'].append('kani harness %s: cover not satisfied' % h['name'])
            elif pr['status'] == 'FAILED':
                real = [f for f in pr['failed_checks'] if 'unwinding assertion' not in f]
                if not real and pr['failed_checks']:
                    rec['status'] = 'undecided'
                    rec['messages'] = pr['failed_checks']
                    res['status'] = 'undecided'
                    res['notes'].append('kani harness %s: unwinding bound too small' % h['name'])
                else:
                    rec['status'] = 'failed'
                    rec['messages'] = pr['failed_checks']
                    rec['rendered'] = pr['text'][-4000:]
            else:
                rec['status'] = 'undecided'
                rec['messages'] = ['kani status %s' % pr['status']]
                res['status'] = 'undecided'
                res['notes'].append('kani harness %s: %s\n%s' % (h['name'], pr['status'], pr['text'][-1500:]))
            res['obligations'].append(rec)
            res['functions'].append({'fn': h.get('fn', ''), 'file': h.get('file', ''), 'props': h.get('props', []),
                                     'time_s': rec['time_s'], 'backend': 'kani'})
        for o in [o for o in res['obligations'] if o['status'] == 'failed']:
            hname = o['id'].split('/')[-1]
            cex = concrete_playback(dst, target, hname, kspec)
            if cex:
                res['replay_extra'][o['id']] = {'failing_input': cex, 'harness': hname}
        for st in kspec.get('stubs', []):
            res['trusted'].append('%s:kani stub %s' % (name, st))
        res['time_s'] = round(time.time() - t0, 1)
    shutil.rmtree(dst, ignore_errors=True)
    return list(results.values())


def run_unit_kani(unit_name, unit_dir, unit, tier, work, only_props=None, playback=False):
    r = run_units_kani({unit_name: (unit_dir, unit)}, tier, work, only_props, tag=unit_name)
    return r[0] if r else None


def concrete_playback(dst, target, hname, kspec):
    cmd = ['cargo', 'kani', '-p', 'pdf', '-Z', 'function-contracts', '-Z', 'stubbing', '-Z', 'concrete-playback',
           '--concrete-playback=print', '--target-dir', target, '--harness', hname, '--output-format', 'terse']
    env = dict(os.environ, CARGO_NET_OFFLINE='true')
    from .verus import run_group
    try:
        p = run_group(cmd, cwd=dst, env=env, timeout=kspec.get('playback_timeout', 900))
    except subprocess.TimeoutExpired:
        return None
    out = p.stdout + p.stderr
    # one generated test per failing check AND per satisfied cover: keep those that are not cover witnesses
    blocks = re.findall(r'((?:///[^\n]*\n)+\s*#\[test\]\s*fn kani_concrete_playback.*?\n\})', out, re.S)
    if not blocks:
        m = re.search(r'```\s*\n(.*?)```', out, re.S)
        return m.group(1) if m else None
    real = [b for b in blocks if '`cover`' not in b and 'cover condition' not in b]
    return '\n\n'.join((real or blocks)[:3])


def run_for_property(prop, mine, tier, work):
    return run_units_kani(mine, tier, work, only_props=[prop], tag=prop)
