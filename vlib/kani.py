"""Kani pipeline: harness modules injected into a scratch copy of /repo, run on the real crate.

unit['kani'] = {
  'modules': [{'file': 'pdf/src/enc.rs', 'code': 'kani_enc.rs'}],      # appended as #[cfg(kani)] mod verif_<unit>
  'harnesses': [{'name': 'word_85_iso', 'props': [...], 'kind': 'complete'|'bounded', 'bound': '...',
                 'tier': 'quick'|'thorough', 'fn': 'word_85', 'timeout': 300, 'contract': '...'}],
}
"""
import fcntl
import os
import re
import shutil
import subprocess
import time

from . import assemble

ROOT = os.path.dirname(os.path.dirname(os.path.abspath(__file__)))
CACHE = os.path.join(ROOT, '.cache')


def scratch_repo(dst):
    src = assemble.REPO.rstrip('/') + '/'
    subprocess.run(['rsync', '-a', '--exclude', 'target', '--exclude', '.git', '--exclude', 'files',
                    '--exclude', 'examples/target', src, dst + '/'], check=True)
    cfgdir = os.path.join(dst, '.cargo')
    os.makedirs(cfgdir, exist_ok=True)
    with open(os.path.join(cfgdir, 'config.toml'), 'a') as f:
        f.write('\n[net]\noffline = true\n')


def inject(dst, unit_name, unit_dir, kspec):
    for mod in kspec.get('modules', []):
        p = os.path.join(dst, mod['file'])
        if not os.path.exists(p):
            raise assemble.Undecided('anchor lost: %s missing' % mod['file'])
        code = open(os.path.join(unit_dir, mod['code']), encoding='utf-8').read()
        with open(p, 'a', encoding='utf-8') as f:
            f.write('\n#[cfg(kani)]\nmod verif_%s {\n#![allow(unused)]\nuse super::*;\n%s\n}\n' % (re.sub(r'\W', '_', unit_name + '_' + os.path.basename(mod['code']).split('.')[0]), code))


def parse_output(out):
    """Split cargo-kani output per harness -> {name: {...}}; handles sequential and -j (Thread N:) layouts."""
    blocks = {}
    thread_h = {}
    cur = None
    for line in out.split('\n'):
        m = re.match(r'^(?:Thread (\d+): )?Checking harness (\S+?)\.\.\.', line)
        if m:
            name = m.group(2).split('::')[-1]
            if m.group(1) is not None:
                thread_h[m.group(1)] = name
                cur = None
            else:
                cur = name
            blocks.setdefault(name, [])
            continue
        m = re.match(r'^Thread (\d+):\s*$', line)
        if m:
            cur = thread_h.get(m.group(1))
            continue
        if line.startswith('Manual Harness Summary') or line.startswith('Summary:'):
            cur = None
        if cur is not None:
            blocks[cur].append(line)
    res = {}
    for name, lines in blocks.items():
        text = '\n'.join(lines)
        m = re.search(r'VERIFICATION:-\s*(\w+)', text)
        status = m.group(1) if m else 'UNKNOWN'
        tm = re.search(r'Verification Time:\s*([0-9.]+)s', text)
        fails = re.findall(r'Failed Checks: (.*)', text)
        cov2 = re.search(r'\*\* (\d+) of (\d+) cover properties satisfied', text)
        res[name] = {'status': status, 'text': text, 'time': float(tm.group(1)) if tm else None,
                     'failed_checks': fails, 'covers': cov2.groups() if cov2 else None}
    return res


def run_unit_kani(unit_name, unit_dir, unit, tier, work, only_props=None, playback=False):
    kspec = unit.get('kani')
    if not kspec:
        return None
    hs = [h for h in kspec['harnesses'] if (tier == 'thorough' or h.get('tier', 'quick') == 'quick')]
    if only_props:
        hs = [h for h in hs if set(h.get('props', [])) & set(only_props)]
    if not hs:
        return None
    t0 = time.time()
    res = {'unit': unit_name + ':kani', 'status': 'ok', 'obligations': [], 'notes': [], 'trusted': [],
           'functions': [], 'cmds': [], 'smt_s': 0.0, 'replay_extra': {}}
    dst = os.path.join(work, 'kani_' + unit_name)
    os.makedirs(dst, exist_ok=True)
    os.makedirs(CACHE, exist_ok=True)
    try:
        scratch_repo(dst)
        inject(dst, unit_name, unit_dir, kspec)
    except assemble.Undecided as ex:
        res['status'] = 'undecided'
        res['notes'].append(str(ex))
        return res
    target = os.path.join(CACHE, 'kani-target')
    lock = open(os.path.join(CACHE, 'kani.lock'), 'w')
    fcntl.flock(lock, fcntl.LOCK_EX)
    try:
        # group harnesses by timeout to keep one build; run all in one cargo kani invocation
        cmd = ['cargo', 'kani', '-p', 'pdf', '-Z', 'function-contracts', '-Z', 'stubbing',
               '--target-dir', target, '-j', str(kspec.get('jobs', 8)), '--output-format', 'terse']
        for a in kspec.get('args', []):
            cmd.append(a)
        for h in hs:
            cmd += ['--harness', h['name']]
        env = dict(os.environ, CARGO_NET_OFFLINE='true')
        tmo = kspec.get('timeout', 1500 if tier == 'quick' else 7200)
        from .verus import run_group
        try:
            p = run_group(cmd, cwd=dst, env=env, timeout=tmo)
            out = p.stdout + '\n' + p.stderr
        except subprocess.TimeoutExpired as ex:
            out = '\n[driver] cargo kani timed out after %ds' % tmo
    finally:
        fcntl.flock(lock, fcntl.LOCK_UN)
        lock.close()
    res['cmds'].append(' '.join(cmd).replace(target, '<cache>/kani-target'))
    parsed = parse_output(out)
    for h in hs:
        oid = '%s/%s/%s' % (unit_name, h.get('fn', 'kani'), h['name'])
        pr = parsed.get(h['name'])
        kind = h.get('kind', 'bounded')
        rec = {'id': oid, 'backend': 'kani+cbmc', 'props': h.get('props', []), 'status': 'discharged',
               'bound': 'complete (loop-free, full domain)' if kind == 'complete' else 'BOUNDED: ' + h.get('bound', '?'),
               'time_s': pr['time'] if pr else None, 'contract': h.get('contract', ''), 'kind': kind}
        if pr is None:
            rec['status'] = 'undecided'
            rec['messages'] = ['harness produced no result (build error, timeout or out of memory)']
            res['status'] = 'undecided'
            res['notes'].append('kani harness %s: no result; tail of output:\n%s' % (h['name'], out[-2500:]))
        elif pr['status'] == 'SUCCESSFUL':
            if h.get('covers') and pr['covers'] and pr['covers'][0] != pr['covers'][1]:
                rec['status'] = 'undecided'
                rec['messages'] = ['vacuity: only %s of %s cover properties satisfied' % pr['covers']]
                res['status'] = 'undecided'
                res['notes'].append('kani harness %s: cover not satisfied' % h['name'])
        elif pr['status'] == 'FAILED':
            # unwinding-assertion failures mean "bound too small", not a violation
            real = [f for f in pr['failed_checks'] if 'unwinding assertion' not in f]
            if not real and pr['failed_checks']:
                rec['status'] = 'undecided'
                rec['messages'] = pr['failed_checks']
                res['status'] = 'undecided'
                res['notes'].append('kani harness %s: unwinding bound too small' % h['name'])
            else:
                rec['status'] = 'failed'
                rec['messages'] = pr['failed_checks']
                rec['rendered'] = pr['text'][-4000:]
        else:
            rec['status'] = 'undecided'
            rec['messages'] = ['kani status %s' % pr['status']]
            res['status'] = 'undecided'
            res['notes'].append('kani harness %s: %s\n%s' % (h['name'], pr['status'], pr['text'][-1500:]))
        res['obligations'].append(rec)
        res['functions'].append({'fn': h.get('fn', ''), 'file': h.get('file', ''), 'props': h.get('props', []), 'time_s': rec['time_s']})
    # concrete playback for failed harnesses: the verifier's counterexample
    failed = [o for o in res['obligations'] if o['status'] == 'failed']
    if failed:
        for o in failed:
            hname = o['id'].split('/')[-1]
            cex = concrete_playback(dst, target, hname, kspec)
            if cex:
                res['replay_extra'][o['id']] = {'failing_input': cex, 'harness': hname}
    for s in kspec.get('stubs', []):
        res['trusted'].append('%s:kani stub %s' % (unit_name, s))
    res['time_s'] = round(time.time() - t0, 1)
    shutil.rmtree(dst, ignore_errors=True)
    return res


def concrete_playback(dst, target, hname, kspec):
    cmd = ['cargo', 'kani', '-p', 'pdf', '-Z', 'function-contracts', '-Z', 'stubbing', '-Z', 'concrete-playback',
           '--concrete-playback=print', '--target-dir', target, '--harness', hname, '--output-format', 'terse']
    env = dict(os.environ, CARGO_NET_OFFLINE='true')
    from .verus import run_group
    try:
        p = run_group(cmd, cwd=dst, env=env, timeout=kspec.get('playback_timeout', 900))
    except subprocess.TimeoutExpired:
        return None
    out = p.stdout + p.stderr
    m = re.search(r'```\s*\n(.*?)```', out, re.S)
    if m:
        return m.group(1)
    m = re.search(r'(#\[test\]\s*fn kani_concrete_playback.*?\n\})', out, re.S)
    return m.group(1) if m else None


def run_for_property(prop, mine, tier, work):
    out = []
    for name, (path, unit) in mine.items():
        r = run_unit_kani(name, path, unit, tier, work, only_props=[prop])
        if r:
            out.append(r)
    return out
