"""bin/check <prop> --replay <file>: re-decide exactly the obligation recorded in a replay file against /repo's
current working tree. Exit 1 (+ VIOLATION line) if it still fails, 0 if it is discharged now, 2 if undecided.
For Kani obligations the verifier's concrete counterexample (values printed by --concrete-playback) is stored
in the file under `failing_input`; the harness is re-run on the real crate, which re-derives it."""
import json
import os
import shutil
import tempfile

from . import assemble, check, kani, findings


def run(prop, path):
    rec = json.load(open(path))
    oid = rec['obligation']
    unit_name = oid.split('/')[0]
    upath = os.path.join(check.UNITS, unit_name)
    work = tempfile.mkdtemp(prefix='verif_replay_')
    try:
        unit = assemble.load_unit(upath)
        fl = findings.load()
        status = None
        if rec.get('backend', '').startswith('kani'):
            h = oid.split('/')[-1]
            unit2 = dict(unit)
            k2 = dict(unit['kani'])
            k2['harnesses'] = [x for x in unit['kani']['harnesses'] if x['name'] == h]
            unit2['kani'] = k2
            r = kani.run_unit_kani(unit_name, upath, unit2, 'thorough', work)
            obs = r['obligations'] if r else []
        else:
            r = check.run_unit(unit_name, upath, findings.deviations_for(unit_name, fl), 'quick', 0, work)
            obs = r['obligations']
        for o in obs:
            if o['id'] == oid:
                status = o['status']
                if status == 'failed':
                    print(o.get('rendered', ''))
        if status == 'failed':
            tail = '' if rec.get('failing_input') else ' no-failing-input-found'
            if rec.get('failing_input'):
                print('failing input (verifier counterexample):\n%s' % rec['failing_input'])
            print('VIOLATION property=%s replay=%s obligation=%s%s' % (prop, path, oid, tail))
            return 1
        if status == 'discharged':
            print('obligation %s is discharged on the current tree' % oid)
            return 0
        print('UNDECIDED: %s (%s)' % (oid, '; '.join((r or {}).get('notes', []))[:1000]))
        return 2
    finally:
        shutil.rmtree(work, ignore_errors=True)
