"""Assemble a single-file Verus unit from /repo's working tree + the unit's contracts."""
import os
import re
import difflib
import importlib.util

from . import rscan
from .rscan import AnchorLost

REPO = os.environ.get('VERIF_REPO', '/repo')


class Undecided(Exception):
    """Exit 2: anchor lost, rewrite rule no longer matches, unsupported construct."""


def ws_regex(find):
    parts = find.split()
    return r'\s*'.join(re.escape(p) for p in _split_punct(parts))


def _split_punct(parts):
    # make whitespace optional around punctuation: split each chunk into identifier / non-identifier runs
    out = []
    for p in parts:
        out.extend(re.findall(r'[A-Za-z0-9_]+|[^A-Za-z0-9_\s]', p))
    return _join_words(out)


def _join_words(toks):
    # adjacent identifier tokens must stay separated by at least one space; handled by caller via \s*,
    # so re-insert a mandatory-space marker between two word tokens
    res = []
    for i, t in enumerate(toks):
        res.append(t)
    return res


def build_find_regex(find):
    toks = []
    for chunk in find.split():
        toks.append(re.findall(r'[A-Za-z0-9_]+|[^A-Za-z0-9_\s]', chunk))
    # tokens inside a chunk: joined by \s* ; between chunks: \s+ if both neighbours are word tokens else \s*
    flat = []
    for ci, chunk in enumerate(toks):
        for ti, t in enumerate(chunk):
            if flat:
                prev = flat[-1][0]
                sep_ws = (ti == 0)
                if sep_ws and re.match(r'\w', prev[-1]) and re.match(r'\w', t[0]):
                    flat.append((r'\s+', True))
                else:
                    flat.append((r'\s*', True))
            flat.append((t, False))
    rx = ''
    for t, is_sep in flat:
        rx += t if is_sep else re.escape(t)
    # word-boundary protection at both ends when the pattern starts/ends with a word char
    if flat and re.match(r'\w', flat[0][0][0]):
        rx = r'(?<![A-Za-z0-9_])' + rx
    if flat and re.match(r'\w', flat[-1][0][-1]):
        rx = rx + r'(?![A-Za-z0-9_])'
    return re.compile(rx)


def apply_rewrites(text, rewrites, what, log):
    for rw in rewrites:
        rule = rw.get('rule', 'R?')
        count = rw.get('count', 1)
        if 'regex' in rw:
            rx = re.compile(rw['regex'], re.S)
            shown = rw['regex']
        else:
            rx = build_find_regex(rw['find'])
            shown = rw['find']
        found = len(rx.findall(text))
        if count == '*':
            pass
        elif found != count:
            raise Undecided('%s: rewrite %s anchor lost: expected %s occurrence(s) of `%s`, found %d'
                            % (what, rule, count, shown, found))
        repl = rw['replace']
        if 'regex' in rw:
            text = rx.sub(repl, text)
        else:
            text = rx.sub(lambda _m: repl, text)
        log.append({'item': what, 'rule': rule, 'find': shown, 'replace': repl, 'n': found})
    return text


GLOBAL_FN_REWRITES = [
    # R4: assert_eq!(a, b) -> assert!(a == b) handled per unit (needs argument split); debug_assert dropped per unit
]


def read_repo(path):
    p = os.path.join(REPO, path)
    if not os.path.exists(p):
        raise Undecided('anchor lost: file %s not found' % path)
    with open(p, encoding='utf-8') as f:
        return f.read()


_src_cache = {}


def expanded_source():
    """The compiler's own expansion of the pdf crate (derive output included), produced from REPO's
    working tree; cached on disk under the hash of every source file that feeds it."""
    import hashlib, subprocess, tempfile, shutil
    h = hashlib.sha256()
    for base in ('pdf/src', 'pdf_derive/src', 'pdf/Cargo.toml', 'pdf_derive/Cargo.toml', 'Cargo.lock'):
        root = os.path.join(REPO, base)
        if os.path.isfile(root):
            h.update(open(root, 'rb').read())
            continue
        for dp, dn, fn in sorted(os.walk(root)):
            dn.sort()
            for f in sorted(fn):
                fp = os.path.join(dp, f)
                h.update(fp[len(REPO):].encode())
                h.update(open(fp, 'rb').read())
    cache_root = os.path.join(os.path.dirname(os.path.dirname(os.path.abspath(__file__))), '.cache')
    os.makedirs(cache_root, exist_ok=True)
    cf = os.path.join(cache_root, 'expanded-%s.rs' % h.hexdigest()[:24])
    if os.path.exists(cf):
        return open(cf, encoding='utf-8').read()
    tmp = tempfile.mkdtemp(prefix='verif_expand_')
    try:
        subprocess.run(['rsync', '-a', '--exclude', 'target', '--exclude', '.git', '--exclude', 'files',
                        REPO.rstrip('/') + '/', tmp + '/'], check=True)
        # rsync -a keeps mtimes and the target dir is shared: refresh them, or cargo may reuse a proc-macro /
        # crate built from ANOTHER tree (e.g. a mutant of pdf_derive) as "fresh"
        # the touch and the build are one critical section: a tree touched WHILE another tree's build is running would
        # look older than that build's outputs and be served the other tree's proc-macro (seen with parallel mutants)
        import fcntl
        lk = open(os.path.join(cache_root, 'expand.lock'), 'w')
        fcntl.flock(lk, fcntl.LOCK_EX)
        try:
            import time
            time.sleep(1.1)   # mtime granularity: strictly newer than anything the previous holder wrote
            subprocess.run(['find', tmp, '-name', '*.rs', '-exec', 'touch', '{}', '+'], check=False)
            env = dict(os.environ, RUSTC_BOOTSTRAP='1', CARGO_TARGET_DIR=os.path.join(cache_root, 'expand-target'),
                       CARGO_NET_OFFLINE='true')
            p = subprocess.run(['cargo', 'rustc', '--offline', '--lib', '-p', 'pdf', '--', '-Zunpretty=expanded'],
                               cwd=tmp, env=env, capture_output=True, text=True, timeout=900)
        finally:
            fcntl.flock(lk, fcntl.LOCK_UN)
            lk.close()
        if p.returncode != 0 or len(p.stdout) < 1000:
            raise Undecided('macro expansion failed: ' + p.stderr[-1500:])
        # keep only the newest few cache files
        olds = sorted((f for f in os.listdir(cache_root) if f.startswith('expanded-')),
                      key=lambda f: os.path.getmtime(os.path.join(cache_root, f)))
        for f in olds[:-4]:
            os.unlink(os.path.join(cache_root, f))
        with open(cf + '.tmp%d' % os.getpid(), 'w', encoding='utf-8') as f:
            f.write(p.stdout)
        os.replace(cf + '.tmp%d' % os.getpid(), cf)
        return p.stdout
    finally:
        shutil.rmtree(tmp, ignore_errors=True)


def load_src(path):
    if path not in _src_cache:
        src = expanded_source() if path == 'expanded:pdf' else read_repo(path)
        _src_cache[path] = (src, rscan.code_mask(src))
    return _src_cache[path]


def reset_cache():
    _src_cache.clear()


def locate(item):
    """Return raw source text of the item (attrs stripped), plus (sig, body) for fns."""
    src, m = load_src(item['file'])
    lo, hi = 0, len(src)
    try:
        conts = item.get('container', []) if isinstance(item.get('container'), list) else ([item['container']] if item.get('container') else [])
        for ci, cont in enumerate(conts):
            last = (ci == len(conts) - 1) and item['kind'] == 'fn'
            s, ob, e = rscan.find_block(src, m, cont, lo, hi, has_fn=item['name'] if last else None)
            lo, hi = ob + 1, e - 1
        if item['kind'] == 'fn':
            s, ob, e = rscan.find_fn(src, m, item['name'], lo, hi)
            return src[s:e], src[s:ob], src[ob:e]
        else:
            s, ob, e = rscan.find_decl(src, m, item['header'], lo, hi)
            return src[s:e], None, None
    except AnchorLost as ex:
        raise Undecided('anchor lost in %s: %s' % (item['file'], ex))


def strip_comments(text):
    m = rscan.code_mask(text)
    out = []
    i = 0
    n = len(text)
    while i < n:
        if not m[i] and (text.startswith('//', i) or text.startswith('/*', i)):
            # comment: skip to next code char / newline
            if text.startswith('//', i):
                j = text.find('\n', i)
                j = n if j < 0 else j
                i = j
                continue
            depth = 0
            while i < n:
                if text.startswith('/*', i):
                    depth += 1
                    i += 2
                elif text.startswith('*/', i):
                    depth -= 1
                    i += 2
                    if depth == 0:
                        break
                else:
                    i += 1
            continue
        out.append(text[i])
        i += 1
    return ''.join(out)


def clause_lines(kw, clauses, indent='        '):
    """Render `kw` + labelled clauses, one per line, each tagged //@L <label>."""
    if not clauses:
        return ''
    out = ['    ' + kw]
    for c in clauses:
        if isinstance(c, (tuple, list)):
            label, expr = c
        else:
            label, expr = None, c
        expr1 = ' '.join(expr.split())
        tag = (' //@L ' + label) if label else ''
        out.append('%s%s,%s' % (indent, expr1, tag))
    return '\n'.join(out) + '\n'


def inject_loops(text, loops, what):
    if not loops:
        return text
    sites = rscan.loop_sites(text)
    # insert from the back so offsets stay valid
    for ordinal in sorted(loops.keys(), reverse=True):
        if ordinal < 1 or ordinal > len(sites):
            raise Undecided('%s: loop #%d not found (function has %d loops)' % (what, ordinal, len(sites)))
        kw, ob = sites[ordinal - 1]
        spec = loops[ordinal]
        ins = '\n'
        ins += clause_lines('invariant_except_break', spec.get('invariant_except_break'), '            ')
        ins += clause_lines('invariant', spec.get('invariant'), '            ')
        ins += clause_lines('ensures', spec.get('ensures'), '            ')
        if spec.get('decreases'):
            ins += '    decreases %s\n' % spec['decreases']
        text = text[:ob] + ins + '        ' + text[ob:]
        if spec.get('for_ghost'):
            # `for x in EXPR` -> `for x in NAME: EXPR`
            seg = text[kw:ob]
            seg2 = re.sub(r'\bin\b\s*', 'in %s: ' % spec['for_ghost'], seg, count=1)
            text = text[:kw] + seg2 + text[ob:]
    return text


def render_fn(key, item, log, unit_rewrites):
    raw, sig, body = locate(item)
    what = key
    sig = strip_comments(sig)
    # R2: drop visibility noise the verifier does not need
    text_sig = apply_rewrites(sig, [r for r in item.get('rewrites', []) if r.get('where') == 'sig'], what + ' (sig)', log)
    body = strip_comments(body) if item.get('strip_comments', True) else body
    body_rw = [r for r in unit_rewrites if r.get('where', 'body') == 'body'] + \
              [r for r in item.get('rewrites', []) if r.get('where', 'body') == 'body']
    body = apply_rewrites(body, body_rw, what, log)
    body = inject_loops(body, item.get('loops'), what)
    head, ret, where = rscan.split_sig(text_sig)
    rn = item.get('ret', 'r')
    if ret is not None:
        head = '%s -> (%s: %s)' % (head, rn, ret)
    new_name = item.get('rename')
    if new_name:
        head = re.sub(r'\bfn\s+%s\b' % re.escape(item['name']), 'fn ' + new_name, head, count=1)
    spec = ''
    if where:
        spec += '    ' + where + '\n'
    spec += clause_lines('requires', item.get('requires'))
    spec += clause_lines('ensures', item.get('ensures'))
    if item.get('decreases'):
        spec += '    decreases %s\n' % item['decreases']
    attrs = ''.join(a + '\n' for a in item.get('attrs', []))
    fn_text = '%s%s\n%s%s\n' % (attrs, head, spec, body)
    canary = None
    if item.get('canary', True):
        cname = (new_name or item['name']) + '__canary'
        chead = re.sub(r'\bfn\s+%s\b' % re.escape(new_name or item['name']), 'fn ' + cname, head, count=1)
        cens = list(item.get('ensures') or []) + [('__canary', 'false')]
        cspec = ''
        if where:
            cspec += '    ' + where + '\n'
        cspec += clause_lines('requires', item.get('requires'))
        cspec += clause_lines('ensures', [('__canary', 'false')])
        if item.get('decreases'):
            cspec += '    decreases %s\n' % item['decreases']
        cbody = body
        canary = '%s%s\n%s%s\n' % (attrs, chead, cspec, cbody)
    return fn_text, canary, raw


def strip_all_attrs(text):
    """Remove every `#[...]` / `#![...]` attribute (bracket-matched on the code mask, so a `]` inside a string
    literal such as default = "vec![0, size]" does not end it)."""
    m = rscan.code_mask(text)
    out = []
    i, n = 0, len(text)
    while i < n:
        if m[i] and text[i] == '#':
            j = i + 1
            if j < n and text[j] == '!':
                j += 1
            while j < n and text[j] in ' \t':
                j += 1
            if j < n and text[j] == '[' and m[j]:
                k = rscan.match_close(text, m, j) + 1
                while k < n and text[k].isspace():
                    k += 1
                i = k
                continue
        out.append(text[i])
        i += 1
    return ''.join(out)


def render_decl(key, item, log):
    raw, _, _ = locate(item)
    text = strip_comments(raw)
    # R2: drop attributes inside (field attrs) and derive lists
    text = strip_all_attrs(text)
    text = apply_rewrites(text, item.get('rewrites', []), key, log)
    attrs = ''.join(a + '\n' for a in item.get('attrs', []))
    return attrs + text + '\n', raw


def load_unit(unit_dir):
    spec = importlib.util.spec_from_file_location('unit_' + os.path.basename(unit_dir), os.path.join(unit_dir, 'unit.py'))
    mod = importlib.util.module_from_spec(spec)
    spec.loader.exec_module(mod)
    return mod.UNIT


MARK = re.compile(r'^[ \t]*//@@[ \t]*(\S.*?)[ \t]*$', re.M)


def assemble(unit_dir, devs=None, with_canaries=True):
    """Return (text, meta). meta: fn line ranges, label lines, rewrite log, extracted raw texts."""
    unit = load_unit(unit_dir)
    if unit.get('template', 'unit.rs') is None:
        return None, {'unit': unit}
    with open(os.path.join(unit_dir, unit.get('template', 'unit.rs')), encoding='utf-8') as f:
        tmpl = f.read()
    log = []
    raws = {}
    rendered = {}
    canaries = {}
    unit_rw = unit.get('rewrites', [])
    absent = set()
    for key, item in unit['items'].items():
        if item.get('optional'):
            # an item that a committed repair ADDED to /repo: absent in older trees -> rendered as nothing
            try:
                locate(item)
            except Undecided:
                absent.add(key)
                rendered[key] = '// (optional item %s not present in this tree)\n' % key
                raws[key] = ''
                continue
        if item['kind'] == 'fn':
            t, c, raw = render_fn(key, item, log, unit_rw)
            rendered[key] = t
            if c and with_canaries:
                canaries[key] = c
        else:
            t, raw = render_decl(key, item, log)
            rendered[key] = t
        raws[key] = raw
    used = set()

    def sub(mt):
        key = mt.group(1)
        if key == 'DEVIATIONS':
            return render_devs(unit, devs)
        if key == 'PDFERROR':
            return render_pdferror()
        if key.startswith('INCLUDE '):
            return open(os.path.join(os.path.dirname(unit_dir), key.split(None, 1)[1]), encoding='utf-8').read()
        if key not in rendered:
            raise Undecided('template marker %s has no item' % key)
        used.add(key)
        out = '//@BEGIN %s\n%s//@END %s\n' % (key, rendered[key], key)
        if key in canaries:
            out += '//@BEGIN %s__canary\n%s//@END %s__canary\n' % (key, canaries[key], key)
        return out
    text = MARK.sub(sub, tmpl)
    missing = set(rendered) - used
    if missing:
        raise Undecided('items without template marker: %s' % sorted(missing))
    # index: line ranges and labels
    ranges = {}
    labels = {}
    cur = None
    for ln, line in enumerate(text.split('\n'), 1):
        mb = re.match(r'//@BEGIN (.*)$', line)
        if mb:
            cur = mb.group(1)
            ranges[cur] = [ln, None]
            continue
        me = re.match(r'//@END (.*)$', line)
        if me:
            ranges[me.group(1)][1] = ln
            cur = None
            continue
        ml = re.search(r'//@L (\S+)\s*$', line)
        if ml:
            labels[ln] = (cur, ml.group(1))
    meta = {'unit': unit, 'ranges': ranges, 'labels': labels, 'rewrites': log, 'raws': raws,
            'rendered': rendered, 'absent': absent}
    return text, meta


KEEP_TYPES = {'usize', 'u64', 'u32', 'u8', 'i32', '[u8; 2]', "&'static str", 'ObjNr', 'Box<PdfError>'}


def render_pdferror():
    """R3: twin of `enum PdfError`, generated from the real variant list of pdf/src/error.rs.
    Payload fields of plain integer / static-str type are kept, every other payload (String, Context,
    io::Error, dyn Error, Arc) is dropped; `Try`, `FromPrimitive` keep their boxed source, `Shared` gets one."""
    src, m = load_src('pdf/src/error.rs')
    try:
        s, ob, e = rscan.find_block(src, m, r'^pub enum PdfError$')
    except AnchorLost as ex:
        raise Undecided('anchor lost: enum PdfError: %s' % ex)
    body = strip_comments(src[ob + 1:e - 1])
    body = re.sub(r'#\[[^\]]*\]', '', body)
    bm = rscan.code_mask(body)
    # split at depth-0 commas
    parts, depth, last = [], 0, 0
    for i, ch in enumerate(body):
        if not bm[i]:
            continue
        if ch in '({[':
            depth += 1
        elif ch in ')}]':
            depth -= 1
        elif ch == ',' and depth == 0:
            parts.append(body[last:i])
            last = i + 1
    parts.append(body[last:])
    out = ['pub enum PdfError {']
    for p in parts:
        p = p.strip()
        if not p:
            continue
        mm = re.match(r'(\w+)\s*(\{(.*)\})?\s*$', p, re.S)
        if not mm:
            raise Undecided('cannot parse PdfError variant: %r' % p[:80])
        name, fields = mm.group(1), mm.group(3)
        keep = []
        if fields:
            for f in re.split(r',(?![^<\[]*[>\]])', fields):
                f = f.strip()
                if not f:
                    continue
                fn_, _, ty = f.partition(':')
                ty = ' '.join(ty.split())
                if fn_.strip() in ('file', 'line', 'column', 'context'):
                    continue
                if ty in KEEP_TYPES:
                    keep.append('%s: %s' % (fn_.strip(), 'u64' if ty == 'ObjNr' else ty))
                elif name == 'Shared' and fn_.strip() == 'source':
                    keep.append('source: Box<PdfError>')
        out.append('    %s%s,' % (name, (' { ' + ', '.join(keep) + ' }') if keep else ''))
    out.append('}')
    out.append('pub type Result<T, E=PdfError> = core::result::Result<T, E>;')
    return '\n'.join(out) + '\n'


def render_devs(unit, devs):
    """Named spec deviations: one spec fn per name, true iff listed as a known finding."""
    out = []
    for name in unit.get('deviations', {}):
        on = devs is not None and name in devs
        out.append('pub open spec fn %s() -> bool { %s }' % (name, 'true' if on else 'false'))
    # tolerances: behaviour the property does not constrain (e.g. what happens on NON-conformant input);
    # always on, never a finding — the spec simply leaves that case open
    for name in unit.get('tolerances', {}):
        out.append('pub open spec fn %s() -> bool { true }' % name)
    return '\n'.join(out) + '\n'


def source_diff(meta):
    """Unified diff between the text in /repo and the text handed to the verifier, per item."""
    out = []
    for key, raw in meta['raws'].items():
        a = raw.split('\n')
        b = meta['rendered'][key].split('\n')
        out.extend(difflib.unified_diff(a, b, 'repo:' + key, 'verified:' + key, lineterm='', n=1))
    return '\n'.join(out)
