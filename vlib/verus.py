"""Run Verus on an assembled unit and turn its output into per-obligation results."""
import json
import os
import re
import subprocess
import tempfile
import time
import shutil

from . import assemble
from .assemble import Undecided

VERUS = os.environ.get('VERIF_VERUS', 'verus')

SEMANTIC = [
    (re.compile(r'postcondition not satisfied'), 'post'),
    (re.compile(r'precondition not satisfied'), 'panic_free'),
    (re.compile(r'invariant not satisfied'), 'loop_invariants'),
    (re.compile(r'loop invariant'), 'loop_invariants'),
    (re.compile(r'loop ensures'), 'loop_invariants'),
    (re.compile(r'possible arithmetic (underflow|overflow)'), 'panic_free'),
    (re.compile(r'possible (bit shift|division by zero)'), 'panic_free'),
    (re.compile(r'possible division by zero'), 'panic_free'),
    (re.compile(r'index out of bounds|in bounds'), 'panic_free'),
    (re.compile(r'assertion failed'), 'proof_step'),
    (re.compile(r'unreachable|panic'), 'panic_free'),
    (re.compile(r'decreases not satisfied|could not prove termination|termination'), 'terminates'),
    (re.compile(r'recommendation not met|recommends'), 'recommends'),
    (re.compile(r'possible truncation|cast'), 'panic_free'),
    (re.compile(r'type invariant'), 'panic_free'),
    (re.compile(r'post-?condition of closure|closure .*ensures'), 'post'),
    (re.compile(r'unable to prove'), 'proof_step'),
]
NONSEMANTIC = re.compile(r'rlimit|Resource limit|timed out|timeout|solver|not supported|unsupported|internal error', re.I)


def classify(msg):
    for rx, cls in SEMANTIC:
        if rx.search(msg):
            return cls
    return None


def run_verus(text, workdir, name, rlimit=None, seed=None, timeout=600, extra=None):
    path = os.path.join(workdir, name + '.rs')
    with open(path, 'w') as f:
        f.write(text)
    cmd = [VERUS, path, '--output-json', '--time-expanded', '--multiple-errors', '40',
           '--triggers-mode', 'silent', '--no-report-long-running']
    if rlimit:
        cmd += ['--rlimit', str(rlimit)]
    if extra:
        cmd += extra
    cmd += ['--', '--error-format=json']
    t0 = time.time()
    try:
        p = run_group(cmd, cwd=workdir, timeout=timeout)
    except subprocess.TimeoutExpired:
        raise Undecided('verus timed out after %ds on %s' % (timeout, name))
    wall = time.time() - t0
    out = None
    try:
        out = json.loads(p.stdout)
    except Exception:
        pass
    diags = []
    for line in p.stderr.split('\n'):
        line = line.strip()
        if not line.startswith('{'):
            continue
        try:
            d = json.loads(line)
        except Exception:
            continue
        if d.get('$message_type') == 'diagnostic':
            diags.append(d)
    return {'cmd': ' '.join(cmd), 'rc': p.returncode, 'json': out, 'diags': diags, 'stderr': p.stderr,
            'wall': wall, 'path': path}


class _P:
    pass


def run_group(cmd, cwd=None, env=None, timeout=None):
    """subprocess.run in its own process group; the whole group is killed on timeout or interruption
    (cargo-kani / cbmc / z3 children must not outlive the check)."""
    import signal
    proc = subprocess.Popen(cmd, cwd=cwd, env=env, stdout=subprocess.PIPE, stderr=subprocess.PIPE, text=True,
                            start_new_session=True)
    try:
        out, err = proc.communicate(timeout=timeout)
    except BaseException:
        try:
            os.killpg(proc.pid, signal.SIGKILL)
        except Exception:
            pass
        try:
            proc.communicate(timeout=10)
        except Exception:
            pass
        raise
    r = _P()
    r.returncode, r.stdout, r.stderr = proc.returncode, out, err
    return r


def fn_of_line(ranges, ln):
    for key, (a, b) in ranges.items():
        if a <= ln <= (b or 10 ** 9):
            return key
    return None


def all_spans(d):
    for s in d.get('spans', []):
        yield s
    for c in d.get('children', []):
        for s in c.get('spans', []):
            yield s


def evaluate(res, meta):
    """Map diagnostics to obligations.

    Returns dict with: failures [ {item, label, cls, message, rendered} ], canary_ok set, canary_bad list,
    hard_errors [rendered...] (compile errors / unsupported), fn_times {item: ms}, verified, errors.
    """
    ranges = meta['ranges']
    labels = meta['labels']
    failures = []
    hard = []
    canary_failed = set()
    nonsem = []
    for d in res['diags']:
        if d.get('level') != 'error':
            continue
        msg = d.get('message', '')
        if msg.startswith('aborting due to'):
            continue
        spans = list(all_spans(d))
        prim = [s for s in d.get('spans', []) if s.get('is_primary')]
        item = None
        for s in prim + spans:
            item = fn_of_line(ranges, s['line_start'])
            if item:
                break
        label = None
        # primary spans first ("failed this postcondition" / the invariant itself); secondary spans only when
        # they are short: "at the end of the function body" covers the whole body and would pick up any label in it
        nonprim = [x for x in spans if not x.get('is_primary') and x['line_end'] - x['line_start'] <= 3]
        for s in prim + nonprim:
            for ln in range(s['line_start'], s['line_end'] + 1):
                if ln in labels:
                    label = labels[ln][1]
                    break
            if label:
                break
        cls = classify(msg)
        rec = {'item': item, 'label': label, 'cls': cls, 'message': msg, 'rendered': d.get('rendered', '')}
        if item and item.endswith('__canary') and re.search(r'rlimit|Resource limit|timed out', msg, re.I):
            # the twin `ensures false` could not be proved within the resource limit: that is a rejection
            canary_failed.add(item[:-len('__canary')])
            continue
        if cls is None or item is None:
            if NONSEMANTIC.search(msg) or cls is None:
                hard.append(rec)
                continue
        if item and item.endswith('__canary'):
            if label == '__canary':
                canary_failed.add(item[:-len('__canary')])
            # other failures inside a canary twin duplicate the original's; ignore
            continue
        failures.append(rec)
    times = {}
    succ = {}
    j = res['json']
    if j:
        for mod in j.get('times-ms', {}).get('smt', {}).get('smt-run-module-times', []):
            for fb in mod.get('function-breakdown', []):
                times[fb['function']] = fb.get('time-micros', 0) / 1e6
                succ[fb['function']] = fb.get('success')
    vr = (j or {}).get('verification-results', {})
    crashed = bool(re.search(r"thread '.*' panicked|internal compiler error|ill-typed AIR|error: internal", res['stderr']))
    return {'crashed': crashed, 'rc': res['rc'], 'failures': failures, 'hard': hard, 'canary_failed': canary_failed, 'fn_times': times,
            'fn_success': succ, 'verified': vr.get('verified'), 'errors': vr.get('errors'),
            'vir_error': vr.get('encountered-vir-error'), 'have_json': j is not None,
            'smt_ms': (j or {}).get('times-ms', {}).get('smt', {}).get('total'),
            'total_ms': (j or {}).get('times-ms', {}).get('total')}
