"""Token-level scanner for Rust source: locates items byte for byte.

Knows strings (normal, byte, raw), char literals vs lifetimes, line comments and
nested block comments.  Everything is located on the *code mask*: a character is
code iff it is outside comments and outside string/char literal contents.
"""
import re


class AnchorLost(Exception):
    pass


def code_mask(src):
    """Return a bytearray m with m[i]==1 iff src[i] is code (not comment / literal body)."""
    n = len(src)
    m = bytearray(n)
    i = 0
    while i < n:
        c = src[i]
        if c == '/' and i + 1 < n and src[i + 1] == '/':
            j = src.find('\n', i)
            if j < 0:
                j = n
            i = j
            continue
        if c == '/' and i + 1 < n and src[i + 1] == '*':
            depth = 1
            i += 2
            while i < n and depth:
                if src.startswith('/*', i):
                    depth += 1
                    i += 2
                elif src.startswith('*/', i):
                    depth -= 1
                    i += 2
                else:
                    i += 1
            continue
        # raw strings r"..", r#".."#, br#".."#
        if c in 'rb':
            mm = re.match(r'(?:br|r)(#*)"', src[i:i + 40])
            if mm and (i == 0 or not (src[i - 1].isalnum() or src[i - 1] == '_')):
                hashes = mm.group(1)
                end = src.find('"' + hashes, i + mm.end())
                if end < 0:
                    end = n
                m[i] = 1
                i = end + 1 + len(hashes)
                continue
        if c == '"' or (c == 'b' and i + 1 < n and src[i + 1] == '"' and
                        (i == 0 or not (src[i - 1].isalnum() or src[i - 1] == '_'))):
            if c == 'b':
                m[i] = 1
                i += 1
            m[i] = 1  # the opening quote counts as code (so tokens stay separated)
            i += 1
            while i < n and src[i] != '"':
                if src[i] == '\\':
                    i += 1
                i += 1
            if i < n:
                m[i] = 1
            i += 1
            continue
        if c == "'":
            # char literal or lifetime
            mm = re.match(r"'(?:\\(?:x[0-9a-fA-F]{2}|u\{[0-9a-fA-F_]+\}|.)|[^\\'])'", src[i:i + 14])
            if mm:
                m[i] = 1
                i += mm.end()
                m[i - 1] = 1
                continue
            m[i] = 1
            i += 1
            continue
        if c == 'b' and i + 1 < n and src[i + 1] == "'" and (i == 0 or not (src[i - 1].isalnum() or src[i - 1] == '_')):
            mm = re.match(r"b'(?:\\(?:x[0-9a-fA-F]{2}|.)|[^\\'])'", src[i:i + 10])
            if mm:
                m[i] = 1
                i += mm.end()
                m[i - 1] = 1
                continue
        m[i] = 1
        i += 1
    return m


def match_close(src, m, open_idx):
    """Index of the bracket closing the one at open_idx (any of ([{ )."""
    pairs = {'(': ')', '[': ']', '{': '}'}
    o = src[open_idx]
    c = pairs[o]
    depth = 0
    for i in range(open_idx, len(src)):
        if not m[i]:
            continue
        ch = src[i]
        if ch == o:
            depth += 1
        elif ch == c:
            depth -= 1
            if depth == 0:
                return i
    raise AnchorLost('unbalanced %s at %d' % (o, open_idx))


def code_only(src, m, lo, hi):
    """Text of src[lo:hi] with non-code characters blanked."""
    return ''.join(src[i] if m[i] else ' ' for i in range(lo, hi))


def strip_attrs(src, m, lo, hi):
    """Skip leading whitespace, comments and #[...] attributes in src[lo:hi]; return new lo."""
    i = lo
    while i < hi:
        if not m[i] or src[i].isspace():
            i += 1
            continue
        if src[i] == '#' and i + 1 < hi:
            j = i + 1
            if src[j] == '!':
                j += 1
            while j < hi and src[j].isspace():
                j += 1
            if j < hi and src[j] == '[':
                i = match_close(src, m, j) + 1
                continue
        break
    return i


def items(src, m, lo, hi):
    """Yield (start, open_brace or None, end) for the items at nesting depth 0 of src[lo:hi].

    An item ends at a ';' at depth 0 or at the '}' matching its first depth-0 '{'.
    """
    i = lo
    start = None
    while i < hi:
        if not m[i] or src[i].isspace():
            i += 1
            continue
        if start is None:
            start = i
        ch = src[i]
        if ch in '([':
            i = match_close(src, m, i) + 1
            continue
        if ch == '{':
            close = match_close(src, m, i)
            yield (start, i, close + 1)
            start = None
            i = close + 1
            # `struct X {...}` needs no ';' ; a trailing ';' becomes an empty item, skipped below
            continue
        if ch == ';':
            yield (start, None, i + 1)
            start = None
        i += 1


def find_block(src, m, header_re, lo=0, hi=None, has_fn=None):
    """Find the depth-0 item in src[lo:hi] whose header (text before its '{') matches header_re.

    Returns (item_start_after_attrs, open_brace, end).
    """
    if hi is None:
        hi = len(src)
    rx = re.compile(header_re)
    hits = []
    for (s, ob, e) in items(src, m, lo, hi):
        if ob is None:
            continue
        s2 = strip_attrs(src, m, s, ob)
        hdr = ' '.join(code_only(src, m, s2, ob).split())
        if rx.search(hdr):
            hits.append((s2, ob, e))
    if not hits:
        raise AnchorLost('no item with header /%s/' % header_re)
    if len(hits) > 1 and has_fn:
        # several blocks share the header (e.g. two `impl PdfString`): take the unique one that holds the fn
        sel = []
        for h in hits:
            try:
                find_fn(src, m, has_fn, h[1] + 1, h[2] - 1)
                sel.append(h)
            except AnchorLost:
                pass
        hits = sel
        if not hits:
            raise AnchorLost('no block /%s/ contains fn %s' % (header_re, has_fn))
    if len(hits) > 1:
        raise AnchorLost('%d items with header /%s/' % (len(hits), header_re))
    return hits[0]


def find_fn(src, m, name, lo=0, hi=None):
    """Find `fn name` at depth 0 of src[lo:hi]. Returns (sig_start, open_brace, end)."""
    return find_block(src, m, r'(^|\s)fn\s+%s\s*(<|\()' % re.escape(name), lo, hi)


def find_decl(src, m, header_re, lo=0, hi=None):
    """Like find_block but also accepts ';'-terminated items (tuple structs, consts, type aliases)."""
    if hi is None:
        hi = len(src)
    rx = re.compile(header_re)
    hits = []
    for (s, ob, e) in items(src, m, lo, hi):
        end_hdr = ob if ob is not None else e
        s2 = strip_attrs(src, m, s, end_hdr)
        hdr = ' '.join(code_only(src, m, s2, end_hdr).split())
        if rx.search(hdr):
            hits.append((s2, ob, e))
    if len(hits) != 1:
        raise AnchorLost('%d items with header /%s/' % (len(hits), header_re))
    return hits[0]


LOOP_KW = re.compile(r'\b(while|for|loop)\b')


def loop_sites(text):
    """Positions (kw_start, body_open_brace) of every loop keyword in text, in source order."""
    m = code_mask(text)
    co = code_only(text, m, 0, len(text))
    out = []
    for mt in LOOP_KW.finditer(co):
        kw = mt.group(1)
        i = mt.end()
        if kw == 'for':
            # skip `for<'a>` (HRTB) and `impl X for Y`
            rest = co[i:].lstrip()
            if rest.startswith('<'):
                continue
            # require an ` in ` before the body brace
        depth = 0
        j = i
        ob = None
        while j < len(co):
            ch = co[j]
            if ch in '([':
                j = match_close(text, m, j) + 1
                continue
            if ch == '{':
                ob = j
                break
            if ch == ';' or ch == '}':
                break
            j += 1
        if ob is None:
            continue
        if kw == 'for' and not re.search(r'\bin\b', co[i:ob]):
            continue
        out.append((mt.start(), ob))
    return out


def split_sig(sig):
    """Split a fn signature (text before the body brace) into (head, ret_type or None, where_clause)."""
    m = code_mask(sig)
    depth = 0
    arrow = None
    where = None
    i = 0
    n = len(sig)
    angle = 0
    while i < n:
        if not m[i]:
            i += 1
            continue
        ch = sig[i]
        if ch in '([{':
            i = match_close(sig, m, i) + 1
            continue
        if ch == '-' and i + 1 < n and sig[i + 1] == '>' and angle == 0 and arrow is None:
            arrow = i
            i += 2
            continue
        if ch == '<':
            angle += 1
        elif ch == '>' and not (i > 0 and sig[i - 1] == '-'):
            angle = max(0, angle - 1)
        if angle == 0 and re.match(r'\bwhere\b', sig[i:]) and (i == 0 or not (sig[i - 1].isalnum() or sig[i - 1] == '_')):
            where = i
            break
        i += 1
    end = where if where is not None else n
    if arrow is None:
        return sig[:end].rstrip(), None, sig[end:].strip()
    return sig[:arrow].rstrip(), sig[arrow + 2:end].strip(), sig[end:].strip()
