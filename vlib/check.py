"""bin/check <property> [--tier quick|thorough] [--replay path]

Decides one property: assembles every unit serving it from /repo's working tree, runs the
verifiers, compares the obligations with the committed expectation, writes evidence.
Exit 0 held / 1 violation (line `VIOLATION property=<id> replay=<path>`) / 2 undecided.
"""
import argparse
import concurrent.futures as cf
import hashlib
import json
import os
import re
import shutil
import subprocess
import sys
import tempfile
import time
import traceback

from . import assemble, verus, kani, findings, native
from .assemble import Undecided

ROOT = os.path.dirname(os.path.dirname(os.path.abspath(__file__)))
UNITS = os.path.join(ROOT, 'units')
EVID = os.environ.get('VERIF_EVIDENCE_DIR') or os.path.join(ROOT, 'evidence')


def all_units(enabled_only=True):
    """Units that take part in the registered checks: those listed in props.json `enabled_units`."""
    enabled = None
    if enabled_only:
        try:
            enabled = set(load_props().get('enabled_units', []))
        except Exception:
            enabled = None
    out = {}
    for d in sorted(os.listdir(UNITS)):
        p = os.path.join(UNITS, d)
        if os.path.exists(os.path.join(p, 'unit.py')) and (enabled is None or d in enabled):
            out[d] = p
    return out


def unit_props(unit):
    ps = set()
    for it in unit['items'].values():
        for p in it.get('props', []):
            ps.add(p)
    for h in unit.get('kani', {}).get('harnesses', []) + unit.get('native', {}).get('tests', []):
        for p in h.get('props', []):
            ps.add(p)
    return ps


def contract_of(item, ob):
    for c in item.get('ensures') or []:
        if isinstance(c, (tuple, list)) and c[0] == ob:
            return 'ensures ' + ' '.join(c[1].split())[:400]
    for lp in (item.get('loops') or {}).values():
        for kind in ('invariant', 'ensures', 'invariant_except_break'):
            for c in lp.get(kind) or []:
                if isinstance(c, (tuple, list)) and c[0] == ob:
                    return kind + ' ' + ' '.join(c[1].split())[:400]
    return {'panic_free': 'no index/overflow/unwrap/panic/unreachable/failed callee precondition on any path',
            'terminates': 'every loop and recursion has a decreasing measure',
            'loop_invariants': 'unlabelled loop invariants hold on entry and are preserved',
            'proof_steps': 'injected lemma calls and ghost assertions hold'}.get(ob, '')


def fn_obligations(key, item, rendered_text):
    """Stable obligation labels of one contracted function."""
    obs = []
    for c in item.get('ensures') or []:
        if isinstance(c, (tuple, list)):
            obs.append(c[0])
    for lp in (item.get('loops') or {}).values():
        for kind in ('invariant', 'ensures', 'invariant_except_break'):
            for c in lp.get(kind) or []:
                if isinstance(c, (tuple, list)) and c[0] not in obs:
                    obs.append(c[0])
    obs.append('panic_free')
    no_term = any('exec_allows_no_decreases_clause' in a for a in item.get('attrs', []))
    if (item.get('loops') or item.get('decreases')) and not no_term:
        obs.append('terminates')
    if item.get('loops'):
        obs.append('loop_invariants')
    if 'assert(' in rendered_text or 'assert ' in rendered_text:
        obs.append('proof_steps')
    return obs


CLS_TO_OB = {'panic_free': 'panic_free', 'terminates': 'terminates', 'loop_invariants': 'loop_invariants',
             'proof_step': 'proof_steps', 'post': 'panic_free', 'recommends': 'proof_steps'}

SCAN = re.compile(r'\bassume\s*\(|\badmit\s*\(|external_body|assume_specification|#\[verifier::external|\baxiom\b|kani::stub')


def scan_trusted(text):
    """Mechanical scan for everything that is assumed rather than proved."""
    hits = []
    lines = text.split('\n')
    for i, line in enumerate(lines):
        code = line.split('//')[0]
        m = SCAN.search(code)
        if not m:
            continue
        what = m.group(0).strip('( ')
        name = ''
        ms = re.search(r'assume_specification\s*(?:<[^>]*>)?\s*\[\s*([^\]]+?)\s*\]', ' '.join(lines[i:i + 3]))
        if ms:
            name = ms.group(1)
        for j in range(i, min(i + 6, len(lines))):
            if name:
                break
            mf = re.search(r'\bfn\s+([A-Za-z0-9_]+)', lines[j])
            if mf:
                name = mf.group(1)
                break
        hits.append((what, name, i + 1))
    return hits


def run_unit(name, path, devs, tier, seed, workdir, only_props=None, verus_extra=None, rlimit=None):
    """Assemble + verify one unit. Returns result dict (status: ok|violation|undecided)."""
    t0 = time.time()
    res = {'unit': name, 'status': 'ok', 'obligations': [], 'violations': [], 'known': [], 'notes': [],
           'trusted': [], 'functions': [], 'verus_cmd': None, 'time_s': 0.0, 'smt_s': 0.0, 'rewrites': 0}
    try:
        text, meta = assemble.assemble(path, devs=devs)
    except Undecided as ex:
        res['status'] = 'undecided'
        res['notes'].append(str(ex))
        return res
    unit = meta['unit']
    if text is None:
        res['status'] = 'skip'
        return res
    res['rewrites'] = len(meta['rewrites'])
    res['rewrite_log'] = meta['rewrites']
    res['diff'] = assemble.source_diff(meta)
    res['text'] = text
    allowed = set(unit.get('allowed_assumes', []))
    for what, fname, ln in scan_trusted(text):
        if what in ('assume', 'admit') and fname not in allowed:
            res['status'] = 'undecided'
            res['notes'].append('undeclared %s( at line %d of the assembled unit' % (what, ln))
        res['trusted'].append('%s:%s %s' % (name, fname, what))
    if res['status'] == 'undecided':
        return res
    rlimit = rlimit or unit.get('rlimit')
    extra = list(verus_extra or [])
    explicit_rlimit = rlimit is not None and rlimit != unit.get('rlimit')
    attempt = 0
    while True:
        try:
            vr = verus.run_verus(text, workdir, name, rlimit=rlimit, timeout=unit.get('timeout', 900), extra=extra)
        except Undecided as ex:
            res['status'] = 'undecided'
            res['notes'].append(str(ex))
            return res
        res['verus_cmd'] = vr['cmd'].replace(workdir, '<scratch>')
        ev = verus.evaluate(vr, meta)
        # A template lemma (no extracted code in it) that runs into the resource limit although nothing else is wrong is
        # re-tried under another solver seed, at most twice: the same text was seen to need < 40 and > 120 resource units in
        # different processes (declaration order in the query is not stable across processes). A proof found under any
        # seed is a proof; running out of resources is 'undecided' either way, never an alarm. Not done for the
        # half-rlimit stability run, nor when a function with extracted code is in trouble (a failing tree).
        lemma_rl = [h for h in ev['hard'] if not h['item'] and re.search(r'rlimit|Resource limit', h['message'], re.I)]
        other = [h for h in ev['hard'] if h not in lemma_rl and not (h['item'] or '').endswith('__canary')]
        if (lemma_rl and not other and not ev['failures'] and not ev['vir_error'] and not ev['crashed'] and ev['have_json']
                and not explicit_rlimit and attempt < 2):
            attempt += 1
            extra = list(verus_extra or []) + ['--smt-option', 'smt.random_seed=%d' % (7919 * attempt)]
            res['notes'].append('template lemma hit the resource limit; re-run %d under another solver seed' % attempt)
            continue
        break
    res['smt_s'] = (ev['smt_ms'] or 0) / 1000.0
    # resource-limit / solver trouble attributed to ONE function makes that function undecided, not the unit
    soft_items = {}
    hard_left = []
    for h in ev['hard']:
        if h['item'] and not h['item'].endswith('__canary') and re.search(r'rlimit|Resource limit|timed out', h['message'], re.I):
            soft_items.setdefault(h['item'], []).append(h)
        elif h['item'] and h['item'].endswith('__canary'):
            pass
        else:
            hard_left.append(h)
    ev['hard'] = hard_left
    if not ev['have_json'] or ev['vir_error'] or ev['hard'] or ev['crashed']:
        res['status'] = 'undecided'
        msgs = [h['rendered'] or h['message'] for h in ev['hard']][:5]
        if not msgs:
            msgs = [vr['stderr'][-3000:]]
        res['notes'].append('verifier did not reach a verdict (compile error / unsupported construct / rlimit):\n' + '\n'.join(msgs))
        res['raw_stderr'] = vr['stderr'][-6000:]
        return res
    # obligations per contracted function
    fails_by_item = {}
    for f in ev['failures']:
        fails_by_item.setdefault(f['item'], []).append(f)
    for key, item in unit['items'].items():
        if item['kind'] != 'fn' or key in meta.get('absent', ()):
            continue
        props = item.get('props', [])
        obs = fn_obligations(key, item, meta['rendered'][key])
        vname = item.get('verus_name', key)
        tsec = 0.0
        for k, v in ev['fn_times'].items():
            short = k.split('::', 1)[1] if '::' in k else k
            if short == vname:
                tsec = v
        res['functions'].append({'fn': key, 'file': item['file'], 'props': props, 'time_s': round(tsec, 4)})
        failed = {}
        for f in fails_by_item.get(key, []):
            ob = f['label'] or CLS_TO_OB.get(f['cls'], 'panic_free')
            if ob not in obs:
                obs.append(ob)
            failed.setdefault(ob, []).append(f)
        if item.get('canary', True) and key not in ev['canary_failed']:
            res['status'] = 'undecided'
            res['notes'].append('vacuity: canary twin of %s (ensures false) was NOT rejected' % key)
        # ground truth per function from Verus' own function breakdown
        okflag = None
        for k, v in ev['fn_success'].items():
            short = k.split('::', 1)[1] if '::' in k else k
            if short == vname:
                okflag = v
        if okflag is False and not failed:
            res['status'] = 'undecided'
            res['notes'].append('%s: Verus reports the function as not verified but no diagnostic could be attributed to it' % key)
        if okflag is None and ev['rc'] != 0 and not failed and not ev['failures'] and len(ev['canary_failed']) == 0:
            res['status'] = 'undecided'
            res['notes'].append('%s: no verification result for this function (verifier stopped early?)' % key)
        if okflag is True and failed:
            res['notes'].append('%s: diagnostics attributed although Verus reports success (kept as failures)' % key)
        for ob in obs:
            oid = '%s/%s/%s' % (name, key, ob)
            rec = {'id': oid, 'backend': 'verus+z3', 'props': props, 'time_s': round(tsec, 4),
                   'status': 'discharged', 'bound': 'unbounded', 'contract': contract_of(item, ob)}
            if key in soft_items and ob not in failed:
                rec['status'] = 'undecided'
                rec['messages'] = [x['message'] for x in soft_items[key]]
                if res['status'] == 'ok':
                    res['status'] = 'undecided'
                res['notes'].append('%s: resource limit exceeded — undecided (not a violation)' % oid)
            if ob in failed:
                rec['status'] = 'failed'
                rec['messages'] = [x['message'] for x in failed[ob]]
                rec['rendered'] = '\n'.join(x['rendered'] for x in failed[ob])
            res['obligations'].append(rec)
    # failures not attributable to an item
    for f in fails_by_item.get(None, []):
        res['status'] = 'undecided'
        res['notes'].append('failure outside any extracted item: ' + f['rendered'])
    res['time_s'] = round(time.time() - t0, 2)
    return res


PROPS_FILE = os.path.join(ROOT, 'props.json')


def load_props():
    with open(PROPS_FILE) as f:
        return json.load(f)


def write_replay(prop, ob, unit_res, extra=None):
    d = os.path.join(EVID, 'replay')
    os.makedirs(d, exist_ok=True)
    fn = re.sub(r'[^A-Za-z0-9_.-]+', '_', '%s__%s' % (prop, ob['id'])) + '.json'
    p = os.path.join(d, fn)
    rec = {'property': prop, 'obligation': ob['id'], 'backend': ob.get('backend'),
           'failing_input': None, 'verifier_output': ob.get('rendered') or ob.get('messages'),
           'extracted_text_diff': unit_res.get('diff'), 'unit': unit_res.get('unit'),
           'how_to_replay': 'bin/check %s --replay %s' % (prop, p)}
    if extra:
        rec.update(extra)
    with open(p, 'w') as f:
        json.dump(rec, f, indent=1)
    return p


def decide(prop, tier, seed, keep=None):
    t0 = time.time()
    props = load_props()
    if prop not in props['claimed']:
        print('property %s is not claimed (see MANIFEST.json not_applicable)' % prop)
        return 2
    pinfo = props['claimed'][prop]
    fl = findings.load()
    units = all_units()
    mine = {}
    broken = []
    for name, path in units.items():
        try:
            u = assemble.load_unit(path)
        except Exception as ex:   # a unit description that does not even load: undecided, never an alarm
            broken.append((name, '%s: %s' % (type(ex).__name__, ex)))
            continue
        if prop in unit_props(u):
            mine[name] = (path, u)
    if not mine:
        print('no unit serves %s' % prop)
        return 2
    work = tempfile.mkdtemp(prefix='verif_%s_' % prop)
    results = []
    try:
        with cf.ThreadPoolExecutor(max_workers=8) as ex:
            futs = {}
            for name, (path, u) in mine.items():
                devs = findings.deviations_for(name, fl)
                wd = os.path.join(work, name)
                os.makedirs(wd)
                futs[ex.submit(run_unit, name, path, devs, tier, seed, wd)] = name
            for fu in cf.as_completed(futs):
                results.append(fu.result())
        # Kani leaves (complete / bounded), sequential: one cargo build shared by all harnesses
        kres = kani.run_for_property(prop, {n: pu for n, pu in mine.items()}, tier, work)
        results.extend(kres)
        results.extend(native.run_units_native(mine, tier, work, only_props=[prop], tag=prop))
        # escalation: a Verus unit that ended undecided (anchor lost, construct Verus cannot read, resource limit)
        # falls back on its bounded Kani second opinions (thorough-tier harnesses on the REAL function): a failing
        # harness is a violation with the verifier's concrete counterexample; a passing one leaves the unit undecided
        if tier != 'thorough':
            und = {r['unit'] for r in results if r['status'] == 'undecided' and ':' not in r['unit']}
            # every unit of the property that has bounded Kani second opinions takes part (the function that a
            # Verus unit could not read is often covered by a Kani-only sibling unit, e.g. codecs2 / hexcodec)
            esc = {n: pu for n, pu in mine.items() if und and pu[1].get('kani')}
            if esc:
                already = {o['id'] for r in kres for o in r['obligations']}
                for r in kani.run_units_kani(esc, 'thorough', work, only_props=[prop], tag=prop + '_esc'):
                    r['unit'] += ':escalation'
                    r['obligations'] = [o for o in r['obligations'] if o['id'] not in already]
                    results.append(r)
        if tier == 'thorough':
            results.extend(thorough_extras(prop, mine, fl, seed, work))
    finally:
        if keep:
            shutil.copytree(work, keep, dirs_exist_ok=True)
        shutil.rmtree(work, ignore_errors=True)
    for name, why in broken:
        results.append({'unit': name, 'status': 'undecided', 'obligations': [], 'functions': [], 'trusted': [],
                        'notes': ['unit description does not load (%s)' % why]})
    results.sort(key=lambda r: r['unit'])
    return report(prop, pinfo, tier, seed, results, fl, time.time() - t0)


def report(prop, pinfo, tier, seed, results, fl, wall):
    obligations = []
    violations = []
    known = []
    undecided = []
    trusted = []
    functions = []
    cmds = []
    smt = 0.0
    for r in results:
        if r['status'] == 'undecided':
            undecided.append((r['unit'], r['notes']))
        trusted.extend(r.get('trusted', []))
        smt += r.get('smt_s', 0.0)
        if r.get('verus_cmd'):
            cmds.append(r['verus_cmd'])
        for c in r.get('cmds', []):
            cmds.append(c)
        for f in r.get('functions', []):
            if prop in f.get('props', []):
                functions.append(f)
        for ob in r['obligations']:
            if prop not in ob.get('props', []):
                continue
            obligations.append(ob)
            if ob['status'] == 'failed':
                kf = findings.match(fl, prop, ob['id'], ob.get('rendered', ''))
                if kf:
                    known.append((ob, kf))
                else:
                    violations.append((ob, r))
            elif ob['status'] == 'undecided':
                undecided.append((r['unit'], [ob['id'] + ': ' + '; '.join(ob.get('messages', []))]))
    # deviations switched on for this property
    dev_known = [f for f in fl if f.get('property') == prop and f.get('deviation')]
    stale = []
    for r in results:
        for s in r.get('stale_deviations', []):
            stale.append(s)
    bounded = [o for o in obligations if o.get('kind') == 'bounded']
    proofobs = [o for o in obligations if o.get('kind') != 'bounded']
    discharged = sum(1 for o in proofobs if o['status'] == 'discharged')
    level = pinfo['category']
    ev = {
        'property_id': prop, 'tier': tier, 'seed': seed, 'level': level,
        'coverage': {
            'obligations': len(proofobs),
            'discharged': discharged + sum(1 for o, _ in known if o.get('kind') != 'bounded'),
            'bounded_checks': [{k: o[k] for k in ('id', 'backend', 'status', 'time_s', 'bound') if k in o} for o in bounded],
            'bounded_note': 'bounded stand-ins (Kani with an unwinding bound / native exhaustive-small tests) are listed here and are NOT counted among obligations/discharged',
            'checker_cmd': ' ; '.join(sorted(set(cmds)))[:4000] or 'none',
            'trusted_base': sorted(set(trusted)) + pinfo.get('trusted_base', []),
            'explanation': pinfo.get('explanation', ''),
            'functions_under_contract': functions,
            'obligation_list': [{k: o[k] for k in ('id', 'backend', 'status', 'time_s', 'bound') if k in o} for o in obligations],
            'samples': [{'id': o['id'], 'backend': o['backend'], 'contract': o.get('contract', '')} for o in obligations[:12]],
            'known_findings_matched': [k[1]['raw'] for k in known] + [f['raw'] for f in dev_known],
            'not_reached': pinfo.get('not_reached', []),
            'solver_time_s': round(smt, 3),
            'rewrites_applied': sum(r.get('rewrites', 0) for r in results),
            'units': [{'unit': r['unit'], 'status': r['status'], 'time_s': r.get('time_s')} for r in results],
            'undecided': [{'unit': u, 'notes': n} for u, n in undecided],
            'failed_obligations': [o['id'] for o, _ in violations],
            'mutant_self_test': [l for r in results for l in r.get('mutants', [])],
        },
        'assumptions': pinfo.get('assumptions', []),
        'wall_s': round(wall, 2),
        'violations': len(violations),
    }
    os.makedirs(EVID, exist_ok=True)
    with open(os.path.join(EVID, prop + '.json'), 'w') as f:
        json.dump(ev, f, indent=1)
    for ob, kf in known:
        print('KNOWN-FINDING: property=%s %s %s' % (prop, ob['id'], kf['what']))
    for f in dev_known:
        print('KNOWN-FINDING: property=%s %s %s' % (prop, f.get('obligation'), f['what']))
    for u, notes in undecided:
        for n in notes:
            print('UNDECIDED unit=%s: %s' % (u, n))
    for s in stale:
        print('STALE-FINDING: %s' % s)
    rc = 0
    for ob, r in violations:
        extra = r.get('replay_extra', {}).get(ob['id'])
        path = write_replay(prop, ob, r, extra)
        tail = '' if (extra and extra.get('failing_input')) else ' no-failing-input-found'
        print('VIOLATION property=%s replay=%s obligation=%s%s' % (prop, path, ob['id'], tail))
        rc = 1
    print('%s tier=%s obligations=%d discharged=%d bounded=%d known=%d violations=%d undecided=%d wall=%.1fs'
          % (prop, tier, len(proofobs), discharged, sum(1 for o in bounded if o['status'] == 'discharged'), len(known) + len(dev_known),
             len(violations), len(undecided), wall))
    if rc == 0 and (undecided or stale):
        rc = 2
    return rc


def thorough_extras(prop, mine, fl, seed, work):
    """Thorough tier: (a) every listed deviation switched off in turn must make the unit fail (else the finding
    is stale); (b) a second Verus run under another solver seed and half the resource limit — a verdict that
    flips is an unstable query: undecided, never a violation; (c) the unit's stored mutants, applied to a
    scratch copy of /repo, must each be rejected (a mutant that verifies = contract gone slack -> undecided)."""
    out = []
    for name, (path, u) in mine.items():
        if u.get('template', 'unit.rs') is None:
            continue
        devs = findings.deviations_for(name, fl)
        stale = []
        for d in sorted(devs):
            wd = os.path.join(work, '%s_devoff_%s' % (name, d))
            os.makedirs(wd, exist_ok=True)
            r = run_unit(name, path, devs - {d}, 'quick', seed, wd)
            if r['status'] == 'ok' and not any(o['status'] == 'failed' for o in r['obligations']):
                stale.append('deviation %s of unit %s: the unit verifies with the deviation switched off — finding is stale' % (d, name))
        wd = os.path.join(work, name + '_seed')
        os.makedirs(wd, exist_ok=True)
        r2 = run_unit(name, path, devs, 'quick', seed, wd, verus_extra=['--smt-option', 'smt.random_seed=%d' % (seed + 17)],
                      rlimit=(u.get('rlimit') or 10) / 2.0)
        rec = {'unit': name + ':stability', 'status': 'ok', 'obligations': [], 'notes': [], 'trusted': [], 'functions': [],
               'stale_deviations': stale, 'cmds': []}
        bad = [o['id'] for o in r2['obligations'] if o['status'] != 'discharged']
        if r2['status'] == 'undecided' or bad:
            rec['status'] = 'undecided'
            rec['notes'].append('second run (seed %d, half rlimit) did not reproduce the verdict: %s %s'
                                % (seed + 17, bad, '; '.join(r2['notes'])[:500]))
        mdir = os.path.join(path, 'mutants')
        if os.path.isdir(mdir) and any(f.endswith('.diff') for f in os.listdir(mdir)):
            p = subprocess.run([os.path.join(ROOT, 'bin', 'mutants'), name], capture_output=True, text=True, timeout=7200)
            lines = [l for l in p.stdout.split('\n') if l.startswith('MUTANT')]
            rec['mutants'] = lines
            for l in lines:
                if 'REJECTED' not in l or '(expected' in l:
                    rec['status'] = 'undecided'
                    rec['notes'].append('self-test: ' + l)
        out.append(rec)
    return out


def main(argv=None):
    ap = argparse.ArgumentParser()
    ap.add_argument('prop')
    ap.add_argument('--tier', default=os.environ.get('VERIF_TIER', 'quick'))
    ap.add_argument('--replay')
    ap.add_argument('--keep', help='copy the scratch directory (assembled files) here')
    a = ap.parse_args(argv)
    seed = int(os.environ.get('VERIF_SEED', '0') or 0)
    if a.replay:
        from . import replay
        return replay.run(a.prop, a.replay)
    try:
        return decide(a.prop, a.tier, seed, a.keep)
    except Undecided as ex:
        print('UNDECIDED: %s' % ex)
        return 2


if __name__ == '__main__':
    sys.exit(main())
