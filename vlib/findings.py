"""known_findings.txt: read, never written at run time.

finding: property=<id> obligation=<unit/fn/label> [deviation=<DEV_NAME>] [expr=<source text>] input=<...> :: <what fails>
fixed:   property=<id> <commit> <what failed>
"""
import os
import re

ROOT = os.path.dirname(os.path.dirname(os.path.abspath(__file__)))
PATH = os.path.join(ROOT, 'known_findings.txt')


def load():
    out = []
    if not os.path.exists(PATH):
        return out
    for line in open(PATH, encoding='utf-8'):
        line = line.strip()
        if not line.startswith('finding:'):
            continue
        body, _, what = line[len('finding:'):].partition(' :: ')
        rec = {'what': what.strip(), 'raw': line}
        # key=value where value runs until the next ` key=`
        for m in re.finditer(r'(\w+)=(.*?)(?=\s+\w+=|$)', body.strip()):
            rec[m.group(1)] = m.group(2).strip()
        out.append(rec)
    return out


def deviations_for(unit_name, fl):
    return {f['deviation'] for f in fl if f.get('deviation') and f.get('obligation', '').split('/')[0] == unit_name}


def match(fl, prop, oid, rendered):
    """A failed obligation is a known finding iff listed for this property and obligation id, and — when the
    entry names the offending expression — the verifier's report points at that very expression."""
    for f in fl:
        if f.get('property') != prop or f.get('obligation') != oid:
            continue
        if f.get('deviation'):
            continue  # deviations are handled by switching the spec, not by suppressing a failure
        if f.get('expr'):
            norm = lambda s: re.sub(r'\s+', '', s)
            if norm(f['expr']) not in norm(rendered or ''):
                continue
        return f
    return None
